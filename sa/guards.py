"""Decision of small validation guards over a finite abstract domain.

A guard is the condition term under which a function raises.  Its atoms (for
instance `len(alphas)`) are given every combination of values from a small
finite set, which enumerates all equality / ordering patterns between them;
the guard *expression* is folded for each combination.  No dinosaur code runs.
"""
from __future__ import annotations

import itertools

from sa import sym
from sa.model import AnalysisError


class Inconclusive(Exception):
  pass


def atoms_of(t, is_atom):
  out = []
  for x in sym.walk(t):
    if is_atom(x) and x not in out:
      out.append(x)
  return out


def fold(t, val):
  """Folds guard term `t`; `val(term)` gives atom values (or raises KeyError)."""
  try:
    return val(t)
  except KeyError:
    pass
  k, a = t.k, t.a
  if k == 'const':
    return a[0]
  if k == 'bin':
    l, r = fold(a[1], val), fold(a[2], val)
    return {
        '+': lambda: l + r, '-': lambda: l - r, '*': lambda: l * r, '//': lambda: l // r,
        '%': lambda: l % r, '/': lambda: l / r, '**': lambda: l ** r, '&': lambda: l & r, '|': lambda: l | r,
    }[a[0]]()
  if k == 'un':
    x = fold(a[1], val)
    if a[0] == 'not':
      return not x
    if a[0] == '-':
      return -x
    if a[0] == '+':
      return x
    raise Inconclusive(sym.show(t))
  if k == 'cmp':
    vals = [fold(x, val) for x in a[1]]
    ok = True
    for op, l, r in zip(a[0], vals, vals[1:]):
      ok = ok and {
          '==': lambda: l == r, '!=': lambda: l != r, '<': lambda: l < r, '<=': lambda: l <= r, '>': lambda: l > r,
          '>=': lambda: l >= r, 'is': lambda: l is r, 'is not': lambda: l is not r,
      }[op]()
      if not ok:
        break
    return ok
  if k == 'bool':
    for x in a[1]:  # short-circuit like python
      v = fold(x, val)
      if a[0] == 'and' and not v:
        return v
      if a[0] == 'or' and v:
        return v
    return v
  if k in ('set', 'tuple', 'list'):
    vals = [fold(x, val) for x in a]
    return {'set': set, 'tuple': tuple, 'list': list}[k](vals)
  if k == 'call' and a[0].k == 'ext' and not a[2]:
    n = a[0].a[0]
    if n == 'len' and len(a[1]) == 1:
      return len(fold(a[1][0], val))
    if n in ('any', 'all', 'set', 'min', 'max', 'abs', 'sorted', 'tuple', 'list') and a[1]:
      args = [fold(x, val) for x in a[1]]
      return {'any': any, 'all': all, 'set': set, 'min': min, 'max': max, 'abs': abs, 'sorted': sorted, 'tuple': tuple, 'list': list}[n](*args)
  raise Inconclusive(sym.show(t))


def truth_table(cond, atoms, domain):
  """{assignment tuple: bool} of `cond` for every assignment of `atoms`."""
  table = {}
  for combo in itertools.product(domain, repeat=len(atoms)):
    env = dict(zip(atoms, combo))

    def val(x, env=env):
      if x in env:
        return env[x]
      raise KeyError(x)

    table[combo] = bool(fold(cond, val))
  return table


def path_cond(path):
  """Conjunction of a path (tuple of condition terms) as a single term."""
  path = tuple(p for p in path if p.k != 'inloop')
  if not path:
    return sym.TRUE
  if len(path) == 1:
    return path[0]
  return sym.Term('bool', 'and', tuple(path))
