"""Hand-rolled memo tables: the key must determine everything the cached value is computed from.

Pattern (module-level dict C, function f):   key = (...);  if key in C: return C[key]   /  C.get(key)  …  C[key] = value
The cached value may depend on any parameter path the function reads; the key identifies the entry.  If the body reads
`coords.vertical.layer_thickness` while the key only holds `coords.vertical.layers`, two different level sets with the same
count share one entry: the second caller silently gets the first caller's operator.

  scan(tree) -> [Site(func, lineno, cache, key_paths, uncovered=[path…])]
"""
from __future__ import annotations

import ast
import dataclasses


@dataclasses.dataclass
class Site:
  func: str
  lineno: int
  cache: str
  key_paths: list
  uncovered: list


def _path(n):
  """Dotted attribute path rooted at a Name, or None."""
  parts = []
  while isinstance(n, ast.Attribute):
    parts.append(n.attr)
    n = n.value
  if isinstance(n, ast.Name):
    return '.'.join([n.id] + parts[::-1])
  return None


def _maximal_paths(node, roots):
  """Maximal attribute paths rooted at one of `roots` that occur (as loads) under node."""
  out = set()
  skip = set()
  for n in ast.walk(node):
    if id(n) in skip:
      continue
    if isinstance(n, (ast.Attribute, ast.Name)):
      p = _path(n)
      if p and p.split('.')[0] in roots:
        out.add(p)
        m = n
        while isinstance(m, ast.Attribute):
          m = m.value
          skip.add(id(m))
  return out


def scan(tree):
  module_dicts = set()
  for st in tree.body:
    tg = None
    if isinstance(st, ast.Assign) and len(st.targets) == 1 and isinstance(st.targets[0], ast.Name):
      tg, val = st.targets[0].id, st.value
    elif isinstance(st, ast.AnnAssign) and isinstance(st.target, ast.Name) and st.value is not None:
      tg, val = st.target.id, st.value
    if tg and (isinstance(val, ast.Dict) or (isinstance(val, ast.Call) and getattr(val.func, 'id', getattr(val.func, 'attr', '')) in ('dict', 'OrderedDict', 'defaultdict', 'WeakValueDictionary'))):
      module_dicts.add(tg)
  sites = []
  if not module_dicts:
    return sites
  for fn in ast.walk(tree):
    if not isinstance(fn, (ast.FunctionDef, ast.AsyncFunctionDef)):
      continue
    stores = [st for st in ast.walk(fn) if isinstance(st, ast.Assign) and any(isinstance(t, ast.Subscript) and isinstance(t.value, ast.Name) and t.value.id in module_dicts for t in st.targets)]
    stores += [st for st in ast.walk(fn) if isinstance(st, ast.Expr) and isinstance(st.value, ast.Call) and isinstance(st.value.func, ast.Attribute) and st.value.func.attr == 'setdefault'
               and isinstance(st.value.func.value, ast.Name) and st.value.func.value.id in module_dicts]
    if not stores:
      continue
    params = {a.arg for a in fn.args.posonlyargs + fn.args.args + fn.args.kwonlyargs} - {'self', 'cls'}
    for st in stores:
      if isinstance(st, ast.Assign):
        sub = next(t for t in st.targets if isinstance(t, ast.Subscript))
        cache, key_expr = sub.value.id, sub.slice
      else:
        cache, key_expr = st.value.func.value.id, st.value.args[0] if st.value.args else None
      if key_expr is None:
        continue
      # resolve a key held in a local name to its defining expression(s)
      key_nodes = [key_expr]
      key_stmt_ids = set()
      if isinstance(key_expr, ast.Name):
        for a in ast.walk(fn):
          if isinstance(a, ast.Assign) and any(isinstance(t, ast.Name) and t.id == key_expr.id for t in a.targets):
            key_nodes.append(a.value)
            key_stmt_ids.add(id(a))
      key_paths = set()
      for k in key_nodes:
        key_paths |= _maximal_paths(k, params)
      # everything else the function reads from its parameters
      body_paths = set()
      for s_ in fn.body:
        for sub_st in ast.walk(s_):
          if isinstance(sub_st, ast.stmt) and id(sub_st) not in key_stmt_ids:
            if isinstance(sub_st, (ast.FunctionDef, ast.If, ast.For, ast.While, ast.With, ast.Try)):
              # compound statements are visited through their children; their own header expressions:
              hdr = [getattr(sub_st, 'test', None), getattr(sub_st, 'iter', None)]
              for h in hdr:
                if h is not None:
                  body_paths |= _maximal_paths(h, params)
              continue
            body_paths |= _maximal_paths(sub_st, params)
      def covered(p):
        return any(p == k or p.startswith(k + '.') for k in key_paths)
      unc = sorted(p for p in body_paths if not covered(p))
      sites.append(Site(fn.name, st.lineno, cache, sorted(key_paths), unc))
  return sites
