"""Small helpers shared by the rules."""
from __future__ import annotations

from sa import sym
from sa.model import AnalysisError
from sa.sym import Term


def inner(ev, value, what='returned closure'):
  """Evaluates the function value `value` (a closure) on symbolic arguments."""
  fi, cenv = ev.get_func(value)
  if fi is None:
    raise AnalysisError(f'{what}: expected a function value, found {sym.show(value)}')
  return ev.run(fi, closure=cenv)


def callee_name(t):
  """Short name of the callee of a `call` term ('' when unknown)."""
  if t.k != 'call':
    return ''
  f = t.a[0]
  if f.k == 'bound':
    return f.a[1].rsplit('.', 1)[-1]
  if f.k == 'func':
    return f.a[0].rsplit('.', 1)[-1]
  if f.k == 'attr':
    return f.a[1]
  if f.k == 'ext':
    return f.a[0].rsplit('.', 1)[-1]
  return ''


def callee_qual(t):
  if t.k != 'call':
    return ''
  f = t.a[0]
  if f.k == 'bound':
    return f.a[1]
  if f.k in ('func', 'ext'):
    return f.a[0]
  if f.k == 'attr':
    return '.' + f.a[1]
  return ''


def call_args(t):
  """Positional args of a call, without the explicit self of bound methods."""
  f = t.a[0]
  args = list(t.a[1])
  if f.k == 'bound' and args and args[0] == f.a[0]:
    args = args[1:]
  return args


def callee_info(t):
  """FuncInfo of the repo function / method called by `t` (None for external or unresolved callees)."""
  from sa import model
  f = t.a[0]
  q = f.a[1] if f.k == 'bound' else (f.a[0] if f.k == 'func' else None)
  if q is None:
    return None
  try:
    return model.program().funcs.get(q)
  except Exception:
    return None


def call_kwargs(t):
  """Explicitly passed arguments by parameter name.

  For external callees these are the keyword arguments as written; for resolved repo callees the
  positionally passed arguments are included under their parameter names, so `f(x, axis)` and
  `f(x, axis=axis)` answer `.get('axis')` alike."""
  out = dict(t.a[2])
  fi = callee_info(t)
  if fi is not None and fi.args.vararg is None:
    names = [x.arg for x in fi.args.posonlyargs + fi.args.args]
    for n, v in zip(names, t.a[1]):
      if v.k != 'star':
        out.setdefault(n, v)
  return out


def arg(t, index, name=None):
  args = call_args(t)
  if name is not None and name in call_kwargs(t):
    return call_kwargs(t)[name]
  if index is not None and index < len(args):
    return args[index]
  return None


def calls(term, name=None, qual=None):
  out = []
  for x in sym.walk(term):
    if x.k == 'call':
      if name is not None and callee_name(x) != name:
        continue
      if qual is not None and not callee_qual(x).endswith(qual):
        continue
      out.append(x)
  return out


def depends_on(term, pred):
  return sym.contains(term, pred)


def is_attr(t, name, base_pred=None):
  return t.k == 'attr' and t.a[1] == name and (base_pred is None or base_pred(t.a[0]))


def strip(t):
  """Strips value-preserving wrappers (bcast, broadcasting subscripts)."""
  from sa.alg import _is_broadcast_index
  while True:
    if t.k == 'bcast':
      t = t.a[0]
    elif t.k == 'sub' and _is_broadcast_index(t.a[1]):
      t = t.a[0]
    else:
      return t


def field(obj, name):
  if obj.k == 'obj':
    for n, v in obj.a[1]:
      if n == name:
        return v
  return None


def literal_list(t):
  """Python list of constants behind a list/tuple term (None if not literal)."""
  if t.k not in ('list', 'tuple'):
    return None
  out = []
  for x in t.a:
    if x.k == 'const':
      out.append(x.a[0])
    elif x.k in ('list', 'tuple'):
      sub = literal_list(x)
      if sub is None:
        return None
      out.append(sub)
    else:
      return None
  return out


def loc_of(t, default=None):
  return t.loc if t.loc is not None else default


def repo_call(callee, args=(), kwargs=(), cls=None, loc=None):
  """Reference `call` term for a repo callee, with its arguments in the evaluator's canonical form."""
  from sa import model
  t = sym.mk_call(callee, tuple(args), tuple(kwargs.items() if isinstance(kwargs, dict) else kwargs), cls=cls, loc=loc)
  fi = callee_info(t)
  if fi is None:
    return t
  a, k = sym.Evaluator(model.program()).canonical_args(fi, list(t.a[1]), list(t.a[2]))
  return sym.mk_call(callee, a, k, cls=cls, loc=loc)
