"""Structural matchers over terms (einsum forms, products, concatenations)."""
from __future__ import annotations

from sa import alg, sym, util
from sa.sym import Term

EINSUM_NAMES = ('jax.numpy.einsum', 'numpy.einsum')


def is_ext_call(t, *shorts):
  return t.k == 'call' and alg.ext_short(t.a[0]) in shorts


def ext_call_name(t):
  return alg.ext_short(t.a[0]) if t.k == 'call' else None


def einsum_parts(t):
  """('string', spec, [operands]) | ('interleaved', [(operand, axes)], out_axes) | None."""
  if t.k != 'call' or t.a[0].k != 'ext' or t.a[0].a[0] not in EINSUM_NAMES:
    return None
  args = list(t.a[1])
  if not args:
    return None
  if args[0].k == 'const' and isinstance(args[0].a[0], str):
    return ('string', args[0].a[0], args[1:])
  pairs = []
  i = 0
  while i + 1 < len(args):
    pairs.append((args[i], args[i + 1]))
    i += 2
  out = args[i] if i < len(args) else None
  return ('interleaved', pairs, out)


def parse_spec(spec):
  ins, out = spec.replace(' ', '').split('->')
  return ins.split(','), out


def factors(t):
  """Factors of an element-wise product (bin '*', einsum scaling along one axis)."""
  t = util.strip(t)
  if t.k == 'bin' and t.a[0] == '*':
    return factors(t.a[1]) + factors(t.a[2])
  ep = einsum_parts(t)
  if ep is not None and ep[0] == 'interleaved' and len(ep[1]) == 2:
    (x, xa), (w, wa) = ep[1]
    if ep[2] is not None and ep[2] == xa:
      return factors(x) + [('axis', wa, util.strip(w))]
    if ep[2] is not None and ep[2] == wa:
      return factors(w) + [('axis', xa, util.strip(x))]
  return [t]


def plain_factors(t):
  out = []
  for f in factors(t):
    out.append(f[2] if isinstance(f, tuple) else f)
  return out


def concat_parts(t):
  """(list of parts, axis term) for np/jnp.concatenate."""
  if not is_ext_call(t, 'concatenate'):
    return None
  args = t.a[1]
  if not args or args[0].k not in ('list', 'tuple'):
    return None
  axis = dict(t.a[2]).get('axis')
  if axis is None and len(args) > 1:
    axis = args[1]
  return list(args[0].a), axis


def slice_in_dim(t):
  """(x, start, stop, axis) of lax.slice_in_dim."""
  if t.k == 'call' and t.a[0].k == 'ext' and t.a[0].a[0] == 'jax.lax.slice_in_dim':
    args = list(t.a[1])
    kw = dict(t.a[2])
    x = args[0]
    start = args[1] if len(args) > 1 else kw.get('start_index')
    stop = args[2] if len(args) > 2 else kw.get('limit_index')
    axis = args[4] if len(args) > 4 else kw.get('axis', sym.const(0))
    return x, start, stop, axis
  return None


def attr_of(t, name):
  t = util.strip(t)
  return t.k == 'attr' and t.a[1] == name


def method_call(t, name):
  """base of `base.name(...)` or None."""
  if t.k == 'call' and t.a[0].k == 'attr' and t.a[0].a[1] == name:
    return t.a[0].a[0]
  return None
