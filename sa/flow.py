"""Where does a value go?  Sink classification over the term DAG.

`sinks(roots, pred)` finds every occurrence of a term matching `pred` below the
given root terms and reports what consumes it, after climbing through pure
containers (tuples / lists, star-expansion) and identity wrappers (`bool(x)`,
`int(x)`, `np.asarray(x)`):

  ('test',)                         it decides a configuration branch (φ condition, not / and / or, comparison in a φ condition)
  ('arg', callee short name, param) it is passed as that parameter (name when the callee resolves or the argument is a keyword, index otherwise)
  ('value', kind, detail)           it takes part in the computation of a value (arithmetic, subscript, attribute, …)
  ('root',)                         it is returned / stored as it is

Because the evaluator substitutes single assignments, the classification does
not depend on local names, temporaries or the order of independent statements.
"""
from __future__ import annotations

from sa import sym, util
from sa.sym import Term

PASS_THROUGH_EXT = {'bool', 'int', 'float', 'numpy.asarray', 'jax.numpy.asarray', 'tuple', 'list'}


def _children(t):
  """[(child term, role descriptor)] of one term."""
  k, a = t.k, t.a
  out = []
  if k == 'call':
    f = a[0]
    out.append((f, ('callee',)))
    fi = util.callee_info(t)
    names = None
    if fi is not None and fi.args.vararg is None:
      names = [x.arg for x in fi.args.posonlyargs + fi.args.args]
    short = util.callee_name(t) or sym.show(f, maxdepth=2)
    for i, x in enumerate(a[1]):
      pname = names[i] if names is not None and i < len(names) else i
      out.append((x, ('arg', short, pname)))
    for n, v in a[2]:
      out.append((v, ('arg', short, n)))
    if f.k == 'attr':
      out.append((f.a[0], ('value', 'method-base', f.a[1])))
    return out
  if k == 'partial':
    f = a[0]
    out.append((f, ('callee',)))
    fi = None
    q = f.a[1] if f.k == 'bound' else (f.a[0] if f.k == 'func' else None)
    if q is not None:
      from sa import model
      fi = model.program().funcs.get(q)
    names = [x.arg for x in fi.args.posonlyargs + fi.args.args] if fi is not None else None
    short = (q or sym.show(f, maxdepth=2)).rsplit('.', 1)[-1]
    if f.k == 'phi':
      short = 'φ-selected callee'
    for i, x in enumerate(a[1]):
      pname = names[i] if names is not None and i < len(names) else i
      out.append((x, ('arg', short, pname)))
    for n, v in a[2]:
      out.append((v, ('arg', short, n)))
    return out
  if k == 'phi':
    return [(a[0], ('test',)), (a[1], ('pass',)), (a[2], ('pass',))]
  if k in ('tuple', 'list', 'set'):
    return [(x, ('pass',)) for x in a]
  if k == 'star':
    return [(a[0], ('pass',))]
  if k == 'dict':
    out = []
    for kk, vv in a:
      out.append((kk, ('value', 'dict-key', '')))
      out.append((vv, ('pass',)))
    return out
  if k == 'obj':
    return [(v, ('value', 'field', n)) for n, v in a[1]]
  if k == 'bin':
    return [(a[1], ('value', 'arith', a[0])), (a[2], ('value', 'arith', a[0]))]
  if k == 'un':
    return [(a[1], ('test',) if a[0] == 'not' else ('value', 'arith', a[0]))]
  if k == 'bool':
    return [(x, ('test',)) for x in a[1]]
  if k == 'cmp':
    return [(x, ('value', 'compare', ' '.join(a[0]))) for x in a[1]]
  if k == 'sub':
    return [(a[0], ('value', 'indexed', '')), (a[1], ('value', 'index', ''))]
  if k == 'slice':
    return [(x, ('value', 'index', '')) for x in a]
  if k == 'attr':
    return [(a[0], ('value', 'attribute-of', a[1]))]
  if k == 'store':
    return [(a[0], ('value', 'stored-into', '')), (a[1], ('value', 'index', '')), (a[2], ('value', 'stored', ''))]
  if k == 'bound':
    return [(a[0], ('value', 'method-base', a[1].rsplit('.', 1)[-1]))]
  out = []
  for x in a:
    if isinstance(x, Term):
      out.append((x, ('value', k, '')))
    elif isinstance(x, tuple):
      for y in x:
        if isinstance(y, Term):
          out.append((y, ('value', k, '')))
        elif isinstance(y, tuple):
          out.extend((z, ('value', k, '')) for z in y if isinstance(z, Term))
  return out


def sinks(roots, pred):
  """Set of sink descriptors of all occurrences of `pred` below `roots`."""
  found = set()
  seen = set()

  def visit(t, inherited):
    """`inherited`: what consumes the value of t (after pass-through containers)."""
    if pred(t):
      found.add(inherited)
      return
    key = (id(t), inherited)
    if key in seen:
      return
    seen.add(key)
    for child, role in _children(t):
      if role == ('pass',):
        visit(child, inherited)
      elif role == ('callee',):
        visit(child, ('value', 'called', ''))
      elif role[0] == 'arg' and t.k == 'call' and t.a[0].k == 'ext' and t.a[0].a[0] in PASS_THROUGH_EXT:
        visit(child, inherited)
      elif role == ('test',) and t.k in ('un', 'bool') and inherited == ('test',):
        visit(child, ('test',))
      elif role[0] == 'value' and role[1] == 'compare' and inherited == ('test',):
        visit(child, ('test',))
      else:
        visit(child, role)

  for r in roots:
    if isinstance(r, Term):
      visit(r, ('root',))
  return found
