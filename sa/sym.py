"""Abstract interpretation of dinosaur functions over a term domain.

Every value is a `Term` (an expression tree with sharing).  Straight-line code
is turned into terms by substitution of single assignments (value numbering);
`if` joins become `phi` terms (both arms are kept, no path conditions are
solved), loops with non-literal bounds are summarised by evaluating the body
once over a loop-variable symbol; repo callees are inlined up to a depth bound
chosen by the rule, everything else stays an opaque `call` node.  Nothing under
/repo is imported or executed.
"""
from __future__ import annotations

import ast
import hashlib
import itertools
from fractions import Fraction

from sa import model
from sa.model import AnalysisError, FuncInfo, ClassInfo, norm_ident, unparse

_uid = itertools.count(1)


_COMMUTATIVE_EXT = {'numpy.maximum', 'numpy.minimum', 'jax.numpy.maximum', 'jax.numpy.minimum', 'numpy.add', 'numpy.multiply', 'jax.numpy.add', 'jax.numpy.multiply',
                    'numpy.logical_and', 'numpy.logical_or', 'jax.numpy.logical_and', 'jax.numpy.logical_or'}
_SEQ_ATTRS = ('shape', 'modal_shape', 'nodal_shape', 'dims', 'axis_names', 'names', 'nested_lengths', 'lengths')


def _seq_like(t):
  """Operand of + / * that may be a python sequence (concatenation / repetition do not commute)."""
  k = t.k
  if k in ('tuple', 'list', 'dict', 'fstr', 'comp', 'star', 'set'):
    return True
  if k == 'const':
    return isinstance(t.a[0], (str, bytes, tuple, list))
  if k == 'attr':
    return t.a[1] in _SEQ_ATTRS
  if k == 'sub':
    return _seq_like(t.a[0]) and t.a[1].k == 'slice'
  if k == 'call':
    f = t.a[0]
    return f.k == 'ext' and f.a[0] in ('tuple', 'list', 'str', 'sorted', 'repr')
  if k == 'bin' and t.a[0] == '+':
    return _seq_like(t.a[1]) or _seq_like(t.a[2])
  return False


def _prim_key(v):
  if isinstance(v, Term):
    return v.key()
  if isinstance(v, tuple):
    return b'(' + b','.join(_prim_key(x) for x in v) + b')'
  if isinstance(v, bool) or isinstance(v, (int, Fraction)):
    return b'N' + str(Fraction(int(v) if isinstance(v, bool) else v)).encode()
  if isinstance(v, float):
    if v != v or v in (float('inf'), float('-inf')):
      return b'F' + repr(v).encode()
    return b'N' + str(Fraction(v)).encode()
  if isinstance(v, str):
    return b'S' + v.encode('utf-8', 'surrogatepass')
  if v is None:
    return b'None'
  if v is Ellipsis:
    return b'...'
  return b'R' + repr(v).encode('utf-8', 'backslashreplace')


class Term:
  """Expression node.  Equality is structural *modulo commutativity* of numeric `+` / `*` and of the symmetric
  numpy binaries (maximum, minimum, …): `a * b` and `b * a` are one term, so rules that compare or look up terms
  give the same verdict on operand-swapped source.  (`cls` and `loc` are annotations, not part of the identity.)"""
  __slots__ = ('k', 'a', 'cls', 'loc', '_h', '_key')

  def __init__(self, k, *a, cls=None, loc=None):
    self.k = k
    self.a = a
    self.cls = cls
    self.loc = loc
    self._h = None
    self._key = None

  def key(self):
    if self._key is None:
      k, a = self.k, self.a
      parts = [_prim_key(x) for x in a]
      if k == 'bin' and a[0] in ('+', '*') and not (_seq_like(a[1]) or _seq_like(a[2])):
        parts[1:3] = sorted(parts[1:3])
      elif k == 'call' and a[0].k == 'ext' and a[0].a[0] in _COMMUTATIVE_EXT and len(a[1]) == 2 and not a[2]:
        parts[1] = b'(' + b','.join(sorted(_prim_key(x) for x in a[1])) + b')'
      elif k == 'cmp' and len(a[0]) == 1 and a[0][0] in ('==', '!='):
        parts[1] = b'(' + b','.join(sorted(_prim_key(x) for x in a[1])) + b')'
      self._key = hashlib.blake2b(k.encode() + b'|' + b'|'.join(parts), digest_size=16).digest()
    return self._key

  def __eq__(self, other):
    return isinstance(other, Term) and (self is other or (self.k == other.k and self.key() == other.key()))

  def __hash__(self):
    if self._h is None:
      self._h = hash(self.key())
    return self._h

  def __repr__(self):
    return show(self)

  def with_cls(self, cls):
    t = Term(self.k, *self.a, cls=cls, loc=self.loc)
    t._key = self._key
    return t


def const(v):
  return Term('const', v)


NONE = const(None)
TRUE = const(True)
FALSE = const(False)
UNBOUND = Term('unbound')


def cval(t, default=None):
  return t.a[0] if t.k == 'const' else default


def show(t, depth=0, maxdepth=6):
  """Readable rendering of a term (truncated)."""
  if not isinstance(t, Term):
    return repr(t)
  if depth > maxdepth:
    return '…'
  s = lambda x: show(x, depth + 1, maxdepth)
  k, a = t.k, t.a
  if k == 'const':
    return repr(a[0])
  if k == 'sym':
    return a[0]
  if k == 'ext':
    return a[0]
  if k == 'global':
    return f'{a[0].split(".")[-1]}.{a[1]}'
  if k == 'func':
    return a[0].split('dinosaur.')[-1]
  if k == 'class':
    return a[0].split('dinosaur.')[-1]
  if k == 'attr':
    return f'{s(a[0])}.{a[1]}'
  if k == 'call':
    args = [s(x) for x in a[1]] + [f'{n}={s(v)}' for n, v in a[2]]
    return f'{s(a[0])}({", ".join(args)})'
  if k == 'bin':
    return f'({s(a[1])} {a[0]} {s(a[2])})'
  if k == 'un':
    return f'({a[0]}{s(a[1])})'
  if k == 'cmp':
    out = s(a[1][0])
    for op, x in zip(a[0], a[1][1:]):
      out += f' {op} {s(x)}'
    return f'({out})'
  if k == 'bool':
    return '(' + f' {a[0]} '.join(s(x) for x in a[1]) + ')'
  if k == 'sub':
    return f'{s(a[0])}[{s(a[1])}]'
  if k == 'slice':
    f = lambda x: '' if x.k == 'const' and x.a[0] is None else s(x)
    return f'{f(a[0])}:{f(a[1])}' + ('' if a[2].k == 'const' and a[2].a[0] is None else ':' + s(a[2]))
  if k in ('tuple', 'list', 'set'):
    o, c = {'tuple': '()', 'list': '[]', 'set': '{}'}[k]
    return o + ', '.join(s(x) for x in a) + c
  if k == 'dict':
    return '{' + ', '.join(f'{s(x)}: {s(y)}' for x, y in a) + '}'
  if k == 'phi':
    return f'φ({s(a[0])} ? {s(a[1])} : {s(a[2])})'
  if k == 'obj':
    return f'{a[0].split(".")[-1]}<' + ', '.join(f'{n}={s(v)}' for n, v in a[1]) + '>'
  if k == 'store':
    return f'{s(a[0])}⟦{s(a[1])} {a[3]} {s(a[2])}⟧'
  if k == 'bound':
    return f'{s(a[0])}.{a[1].split(".")[-1]}'
  if k == 'partial':
    args = [s(x) for x in a[1]] + [f'{n}={s(v)}' for n, v in a[2]]
    return f'partial({s(a[0])}; {", ".join(args)})'
  if k == 'lambda':
    return f'λ{a[0]}'
  if k == 'loopvar':
    return f'{a[0]}∈{s(a[1])}'
  if k == 'carried':
    return f'{a[0]}′'
  if k == 'loop':
    return f'loop[{a[0]}: {s(a[2])}]'
  if k == 'mapover':
    return f'map({s(a[0])} over {", ".join(s(x) for x in a[1])})'
  if k == 'leaf':
    return f'leaf({s(a[0])})'
  if k == 'unknown':
    return f'?{a[0]}'
  if k == 'fstr':
    return 'f"' + ''.join(x if isinstance(x, str) else '{' + s(x) + '}' for x in a) + '"'
  if k == 'comp':
    return f'[{s(a[1])} for {", ".join(s(g) for g in a[2])}]'
  if k == 'star':
    return '*' + s(a[0])
  if k == 'kwstar':
    return '**' + s(a[0])
  if k == 'unbound':
    return '<unbound>'
  if k == 'bcast':
    return s(a[0])
  if k == 'meshgrid':
    return f'meshgrid(*{s(a[0])})'
  return f'{k}{a!r}'


def walk(t, seen=None):
  """Pre-order over all sub-terms (each shared node once)."""
  if seen is None:
    seen = set()
  stack = [t]
  while stack:
    x = stack.pop()
    if not isinstance(x, Term):
      if isinstance(x, tuple):
        stack.extend(x)
      continue
    if id(x) in seen:
      continue
    seen.add(id(x))
    yield x
    for c in x.a:
      if isinstance(c, (Term, tuple)):
        stack.append(c)


def contains(t, pred):
  for x in walk(t):
    if pred(x):
      return True
  return False


def subterms(t, pred):
  return [x for x in walk(t) if pred(x)]


def _is_number(t):
  return t.k == 'const' and isinstance(t.a[0], (int, float, Fraction)) and not isinstance(t.a[0], bool)


def canon_operands(op, l, r):
  """One spelling for arithmetically identical forms (all exact in IEEE arithmetic):
  a numeric literal goes first in + and *;  a + (-b) ≡ a - b;  a - (-b) ≡ a + b."""
  if op in ('+', '*') and _is_number(r) and l.k not in ('const', 'tuple', 'list', 'dict', 'fstr', 'comp', 'star'):
    l, r = r, l
  if op == '+':
    # (-a) + b ≡ b - a
    if l.k == 'un' and l.a[0] == '-' and not (r.k == 'un' and r.a[0] == '-'):
      op, l, r = '-', r, l.a[1]
    elif _is_number(l) and l.a[0] < 0 and not _is_number(r):
      op, l, r = '-', r, const(-l.a[0])
  while op in ('+', '-'):
    flip = {'+': '-', '-': '+'}[op]
    if r.k == 'un' and r.a[0] == '-':
      op, r = flip, r.a[1]
    elif _is_number(r) and r.a[0] < 0:
      op, r = flip, const(-r.a[0])
    else:
      break
    if op == '+' and _is_number(r) and l.k not in ('const', 'tuple', 'list', 'dict', 'fstr', 'comp', 'star'):
      l, r = r, l
  return op, l, r


def mk_bin(op, l, r, loc=None):
  """`bin` term in the evaluator's canonical operand form (use this to build reference terms)."""
  op, l, r = canon_operands(op, l, r)
  return Term('bin', op, l, r, loc=loc)


def mk_call(f, args=(), kwargs=(), cls=None, loc=None):
  return Term('call', f, tuple(args), tuple(kwargs), cls=cls, loc=loc)


def mk_phi(c, a, b):
  if a == b:
    return a
  return Term('phi', c, a, b, cls=a.cls if a.cls is b.cls else None)


BINOPS = {
    ast.Add: '+', ast.Sub: '-', ast.Mult: '*', ast.Div: '/', ast.FloorDiv: '//',
    ast.Mod: '%', ast.Pow: '**', ast.MatMult: '@', ast.BitAnd: '&',
    ast.BitOr: '|', ast.BitXor: '^', ast.LShift: '<<', ast.RShift: '>>',
}
UNOPS = {ast.USub: '-', ast.UAdd: '+', ast.Not: 'not', ast.Invert: '~'}
CMPOPS = {
    ast.Eq: '==', ast.NotEq: '!=', ast.Lt: '<', ast.LtE: '<=', ast.Gt: '>',
    ast.GtE: '>=', ast.Is: 'is', ast.IsNot: 'is not', ast.In: 'in',
    ast.NotIn: 'not in',
}

# Wrappers that return (a version of) their first callable argument.
TRANSPARENT = {
    'jax.named_call', 'jax.jit', 'jax.checkpoint', 'jax.remat',
    'tree_math.wrap', 'tree_math.unwrap', 'jax.vmap', 'jax.numpy.vectorize',
    'functools.lru_cache', 'functools.cache', 'functools.wraps',
    'jax.experimental.shard_map.shard_map', 'jax.named_scope',
}
TREE_MAPS = {'jax.tree_util.tree_map', 'jax.tree.map', 'jax.tree_map'}
IDENTITY_CALLS = {
    'tree_math.Vector', 'jax.numpy.asarray', 'numpy.asarray', 'jax.numpy.array',
    'numpy.array',
}


# Numeric helpers and configuration-dependent members that are kept as opaque
# heads unless a rule asks for their inside.
STD_OPAQUE = {
    'dinosaur.jax_numpy_utils.shift', 'dinosaur.jax_numpy_utils.pad_in_dim',
    'dinosaur.jax_numpy_utils.diff', 'dinosaur.jax_numpy_utils.cumsum',
    'dinosaur.jax_numpy_utils.reverse_cumsum', 'dinosaur.jax_numpy_utils._dot_cumsum',
    'dinosaur.jax_numpy_utils.sharded_einsum',
    'dinosaur.spherical_harmonic.Grid.spherical_harmonics',
    'dinosaur.spherical_harmonic.get_latitude_nodes',
}


# Opaque repo callees that return a value of the same pytree type as their data argument.
SAME_TYPE_CALLS = {'clip_wavenumbers', 'to_modal', 'to_nodal', 'with_dycore_sharding', 'with_physics_sharding', 'tree_map_over_nonscalars'}


class Options:
  """Per-analysis policy."""

  def __init__(
      self,
      max_depth=6,
      inline=None,
      opaque=(),
      type_hints=None,
      unroll_limit=16,
      identity_arrays=True,
      fold_consts=True,
      model_nonscalar=True,
      model_vertical_padding=True,
      std_opaque=True,
  ):
    self.max_depth = max_depth
    self.inline = inline  # callable(FuncInfo) -> bool, or None = everything
    self.opaque = set(opaque)  # qualnames (without package prefix ok)
    self.type_hints = dict(type_hints or {})
    self.unroll_limit = unroll_limit
    self.identity_arrays = identity_arrays
    self.fold_consts = fold_consts
    self.model_nonscalar = model_nonscalar
    self.model_vertical_padding = model_vertical_padding
    if std_opaque:
      self.opaque |= STD_OPAQUE

  def may_inline(self, f: FuncInfo):
    q = f.qualname
    short = q[len('dinosaur.'):] if q.startswith('dinosaur.') else q
    if q in self.opaque or short in self.opaque:
      return False
    if self.inline is not None:
      return bool(self.inline(f))
    return True


DEFAULT_TYPE_HINTS = {
    ('dinosaur.coordinate_systems.CoordinateSystem', 'vertical'):
        'dinosaur.sigma_coordinates.SigmaCoordinates',
}


class Ctx:
  """State of one function activation."""

  def __init__(self, finfo, depth):
    self.finfo = finfo
    self.depth = depth
    self.returns = []  # (path tuple, term)
    self.raises = []   # (path tuple, exc term, loc)
    self.asserts = []
    self.path = []


class Evaluator:

  def __init__(self, prog: model.Program = None, options: Options = None):
    self.prog = prog or model.program()
    self.opt = options or Options()
    hints = dict(DEFAULT_TYPE_HINTS)
    hints.update(self.opt.type_hints)
    self.type_hints = hints
    self.lambdas = {}      # key -> (FuncInfo, env)
    self.events = []       # (kind, payload, loc)
    self.calls = []        # (caller qualname, callee term, loc) for every call site evaluated
    self.stack = []        # FuncInfo activation stack
    self.raises = []       # (func qualname, path, exc, loc) over the whole run
    self.unresolved = []   # (what, loc)
    self._global_cache = {}
    self._active_globals = set()

  # ------------------------------------------------------------------ utils
  def loc(self, node, finfo=None):
    f = finfo or (self.stack[-1] if self.stack else None)
    file = f.file if f is not None else '?'
    return (file, getattr(node, 'lineno', 0))

  def unknown(self, why, node=None):
    t = Term('unknown', why, next(_uid), loc=self.loc(node) if node is not None else None)
    return t

  def sym(self, name, cls=None):
    return Term('sym', name, cls=cls)

  def class_term(self, c: ClassInfo):
    return Term('class', c.qualname)

  def func_term(self, f: FuncInfo):
    if f.qualname in self.prog.funcs and self.prog.funcs[f.qualname] is f:
      return Term('func', f.qualname)
    return self.make_lambda(f, {})

  def make_lambda(self, finfo, env):
    key = f'{finfo.qualname}@{finfo.lineno}#{next(_uid)}'
    self.lambdas[key] = (finfo, env)
    return Term('lambda', key)

  def get_func(self, t):
    """FuncInfo (+ closure env) behind a callable term, or None."""
    if t.k == 'func':
      return self.prog.funcs.get(t.a[0]), None
    if t.k == 'lambda':
      return self.lambdas[t.a[0]]
    return None, None

  # ------------------------------------------------------- module namespace
  def module_name_lookup(self, mod: model.ModuleInfo, name):
    name = norm_ident(name)
    if name in mod.functions:
      return Term('func', mod.functions[name].qualname)
    if name in mod.classes:
      return self.class_term(mod.classes[name])
    if name in mod.assigns:
      return self.global_value(mod, name)
    if name in mod.imports:
      return self.dotted_term(mod.imports[name])
    return None

  def dotted_term(self, dotted):
    kind, val = self.prog.resolve_dotted(dotted)
    if kind == 'module':
      return Term('module', val.name)
    if kind == 'class':
      return self.class_term(val)
    if kind == 'func':
      return Term('func', val.qualname)
    if kind == 'assign':
      return self.global_value(val[0], val[1])
    return Term('ext', dotted)

  def global_value(self, mod, name):
    """Module-level NAME: callable aliases are expanded, data stays `global`."""
    key = (mod.name, name)
    if key in self._global_cache:
      return self._global_cache[key]
    g = Term('global', mod.name, name)
    if key in self._active_globals:
      return g
    self._active_globals.add(key)
    try:
      v = self.eval_module_expr(mod, mod.assigns[name])
    finally:
      self._active_globals.discard(key)
    if v.k in ('ext', 'func', 'class', 'partial', 'lambda', 'module', 'bound'):
      out = v
    elif v.k == 'call' and v.a[0].k == 'ext' and v.a[0].a[0] in TRANSPARENT:
      out = v
    else:
      out = g
      if v.cls is not None:
        out = g.with_cls(v.cls)
    self._global_cache[key] = out
    return out

  def global_definition(self, g):
    """Term of the defining expression of a `global` term."""
    mod = self.prog.modules[g.a[0]]
    key = ('def', g.a[0], g.a[1])
    if key not in self._global_cache:
      self._global_cache[key] = self.eval_module_expr(mod, mod.assigns[g.a[1]])
    return self._global_cache[key]

  def eval_module_expr(self, mod, expr):
    pseudo = FuncInfo(ast.Lambda(args=ast.arguments(posonlyargs=[], args=[], kwonlyargs=[], kw_defaults=[], defaults=[]), body=expr, lineno=getattr(expr, 'lineno', 0)), mod, name='<module>')
    self.stack.append(pseudo)
    try:
      return self.eval(expr, {}, Ctx(pseudo, 0))
    finally:
      self.stack.pop()

  # ----------------------------------------------------------- entry points
  def param_symbols(self, finfo, self_cls=None, bind=None, use_defaults=False):
    """Symbolic arguments for analysing `finfo` stand-alone."""
    bind = dict(bind or {})
    a = finfo.args
    names = [norm_ident(x.arg) for x in a.posonlyargs + a.args]
    anns = [x.annotation for x in a.posonlyargs + a.args]
    defaults = [None] * (len(names) - len(a.defaults)) + list(a.defaults)
    env = {}
    for i, (n, ann, d) in enumerate(zip(names, anns, defaults)):
      if n in bind:
        env[n] = bind[n]
        continue
      if i == 0 and finfo.cls is not None and not finfo.is_staticmethod():
        if finfo.is_classmethod():
          env[n] = self.class_term(self_cls or finfo.cls)
        else:
          c = self_cls or finfo.cls
          env[n] = self.sym(f'self:{c.name}', cls=c)
        continue
      if use_defaults and d is not None:
        dv = self.eval_module_expr(finfo.module, d)
        if dv.k == 'const':
          env[n] = dv
          continue
      cls = self.prog.resolve_class_expr(ann, finfo.module) if ann is not None else None
      env[n] = self.sym(f'{n}', cls=cls)
    for x, d in zip(a.kwonlyargs, a.kw_defaults):
      n = norm_ident(x.arg)
      if n in bind:
        env[n] = bind[n]
        continue
      if use_defaults and d is not None:
        dv = self.eval_module_expr(finfo.module, d)
        if dv.k == 'const':
          env[n] = dv
          continue
      cls = self.prog.resolve_class_expr(x.annotation, finfo.module) if x.annotation is not None else None
      env[n] = self.sym(f'{n}', cls=cls)
    if a.vararg:
      env[norm_ident(a.vararg.arg)] = bind.get(a.vararg.arg, self.sym('*' + a.vararg.arg))
    if a.kwarg:
      env[norm_ident(a.kwarg.arg)] = bind.get(a.kwarg.arg, self.sym('**' + a.kwarg.arg))
    return env

  def run(self, finfo, self_cls=None, bind=None, use_defaults=False, closure=None):
    """Evaluates `finfo` on symbolic parameters; returns (value, ctx, env)."""
    env = dict(closure or {})
    env.update(self.param_symbols(finfo, self_cls, bind, use_defaults))
    return self.activate(finfo, env, 0)

  def activate(self, finfo, env, depth):
    ctx = Ctx(finfo, depth)
    self.stack.append(finfo)
    try:
      self.exec_block(finfo.body, env, ctx)
    finally:
      self.stack.pop()
    for path, exc, loc in ctx.raises:
      self.raises.append((finfo.qualname, path, exc, loc))
    value = self.merge_returns(ctx.returns)
    return value, ctx, env

  def merge_returns(self, returns):
    if not returns:
      return NONE
    paths = [p for p, _ in returns]
    common = 0
    while all(len(p) > common for p in paths) and all(p[common] == paths[0][common] for p in paths):
      common += 1
    value = returns[-1][1]
    for path, v in reversed(returns[:-1]):
      path = path[common:]
      cond = path[-1] if len(path) == 1 else Term('bool', 'and', tuple(path)) if path else TRUE
      value = mk_phi(cond, v, value)
    return value

  # ------------------------------------------------------------- statements
  def exec_block(self, stmts, env, ctx):
    """Returns True when the block always terminates (return/raise)."""
    pushed = 0
    try:
      for st in stmts:
        term = self.exec_stmt(st, env, ctx)
        if term is True:
          return True
        if isinstance(term, Term):  # remaining statements run under this cond
          ctx.path.append(term)
          pushed += 1
      return False
    finally:
      for _ in range(pushed):
        ctx.path.pop()

  def exec_stmt(self, st, env, ctx):
    if isinstance(st, ast.Expr):
      v = self.eval(st.value, env, ctx)
      self.side_effect_call(st.value, v, env, ctx)
      return False
    if isinstance(st, ast.Assign):
      v = self.eval(st.value, env, ctx)
      for t in st.targets:
        self.assign(t, v, env, ctx)
      return False
    if isinstance(st, ast.AnnAssign):
      if st.value is not None:
        self.assign(st.target, self.eval(st.value, env, ctx), env, ctx)
      return False
    if isinstance(st, ast.AugAssign):
      cur = self.eval(_load(st.target), env, ctx)
      v = self.eval(st.value, env, ctx)
      new = self.binop(BINOPS[type(st.op)], cur, v, st)
      self.assign(st.target, new, env, ctx)
      return False
    if isinstance(st, ast.Return):
      v = self.eval(st.value, env, ctx) if st.value is not None else NONE
      ctx.returns.append((tuple(ctx.path), v))
      return True
    if isinstance(st, ast.Raise):
      exc = self.eval(st.exc, env, ctx) if st.exc is not None else NONE
      ctx.raises.append((tuple(ctx.path), exc, self.loc(st)))
      return True
    if isinstance(st, ast.If):
      return self.exec_if(st, env, ctx)
    if isinstance(st, ast.For):
      return self.exec_for(st, env, ctx)
    if isinstance(st, ast.While):
      return self.exec_while(st, env, ctx)
    if isinstance(st, (ast.FunctionDef, ast.AsyncFunctionDef)):
      fi = FuncInfo(st, ctx.finfo.module, parent=ctx.finfo)
      ctx.finfo.nested[fi.name] = fi
      val = self.make_lambda(fi, env)
      for d in reversed(st.decorator_list):
        dv = self.eval(d, env, ctx)
        val = self.call(dv, [val], [], env, ctx, d)
      env[fi.name] = val
      return False
    if isinstance(st, ast.ClassDef):
      env[st.name] = self.unknown('local class', st)
      return False
    if isinstance(st, ast.With):
      for item in st.items:
        v = self.eval(item.context_expr, env, ctx)
        if item.optional_vars is not None:
          self.assign(item.optional_vars, v, env, ctx)
      return self.exec_block(st.body, env, ctx)
    if isinstance(st, ast.Try):
      r = self.exec_block(st.body, env, ctx)
      for h in st.handlers:
        henv = dict(env)
        if h.name:
          henv[h.name] = self.unknown('exception', h)
        ctx.path.append(self.unknown('except', h))
        try:
          self.exec_block(h.body, henv, ctx)
        finally:
          ctx.path.pop()
      if st.finalbody:
        self.exec_block(st.finalbody, env, ctx)
      return r
    if isinstance(st, ast.Assert):
      ctx.asserts.append((tuple(ctx.path), self.eval(st.test, env, ctx), self.loc(st)))
      return False
    if isinstance(st, ast.Delete):
      for t in st.targets:
        if isinstance(t, ast.Name):
          env.pop(norm_ident(t.id), None)
      return False
    if isinstance(st, (ast.Pass, ast.Import, ast.ImportFrom, ast.Global, ast.Nonlocal, ast.Break, ast.Continue)):
      return False
    self.unresolved.append((f'statement {type(st).__name__}', self.loc(st)))
    return False

  def side_effect_call(self, node, v, env, ctx):
    """`x.append(v)`, `x.extend(v)`, `d.pop(k)`, `np.fill_diagonal(a, v)`…"""
    if not isinstance(node, ast.Call):
      return
    f = node.func
    if isinstance(f, ast.Attribute) and isinstance(f.value, ast.Name):
      name = norm_ident(f.value.id)
      cur = env.get(name)
      if cur is None:
        cur = UNBOUND
      if cur is UNBOUND or f.attr not in ('append', 'extend', 'update'):
        args = []
      else:
        args = [self.eval(a, env, ctx) for a in node.args if not isinstance(a, ast.Starred)]
      if cur is UNBOUND:
        pass
      elif f.attr == 'append' and cur.k == 'list' and len(args) == 1:
        env[name] = Term('list', *(cur.a + (args[0],)))
      elif f.attr == 'append' and len(args) == 1:
        env[name] = Term('store', cur, const('append'), args[0], 'append')
      elif f.attr == 'extend' and len(args) == 1:
        if cur.k == 'list' and args[0].k in ('list', 'tuple'):
          env[name] = Term('list', *(cur.a + args[0].a))
        else:
          env[name] = Term('store', cur, const('extend'), args[0], 'extend')
      elif f.attr == 'update' and len(args) == 1:
        env[name] = Term('store', cur, const('update'), args[0], 'update')
    dotted = self.ext_name(self.eval(f, env, ctx)) if not isinstance(f, ast.Lambda) else None
    if dotted == 'numpy.fill_diagonal' and node.args and isinstance(node.args[0], ast.Name):
      name = norm_ident(node.args[0].id)
      val = self.eval(node.args[1], env, ctx)
      env[name] = Term('store', env[name], const('diagonal'), val, '=')

  def exec_if(self, st, env, ctx):
    c = self.eval(st.test, env, ctx)
    truth = self.truth(c)
    if truth is True:
      return self.exec_block(st.body, env, ctx)
    if truth is False:
      return self.exec_block(st.orelse, env, ctx)
    notc = self.negate(c)
    env_a, env_b = dict(env), dict(env)
    ctx.path.append(c)
    try:
      ta = self.exec_block(st.body, env_a, ctx)
    finally:
      ctx.path.pop()
    ctx.path.append(notc)
    try:
      tb = self.exec_block(st.orelse, env_b, ctx)
    finally:
      ctx.path.pop()
    if ta and tb:
      return True
    if ta:
      env.clear(); env.update(env_b)
      return notc
    if tb:
      env.clear(); env.update(env_a)
      return c
    merged = {}
    for n in set(env_a) | set(env_b):
      va, vb = env_a.get(n, UNBOUND), env_b.get(n, UNBOUND)
      merged[n] = va if va is vb or va == vb else mk_phi(c, va, vb)
    env.clear(); env.update(merged)
    return False

  def negate(self, c):
    if c.k == 'un' and c.a[0] == 'not':
      return c.a[1]
    return Term('un', 'not', c)

  def truth(self, c):
    if c.k == 'const':
      return bool(c.a[0])
    if c.k in ('tuple', 'list', 'dict', 'set'):
      return len(c.a) > 0
    if c.k in ('func', 'lambda', 'class', 'partial', 'bound'):
      return True
    if c.k == 'un' and c.a[0] == 'not':
      t = self.truth(c.a[1])
      return None if t is None else not t
    if c.k == 'bool':
      ts = [self.truth(x) for x in c.a[1]]
      if c.a[0] == 'and':
        if any(t is False for t in ts):
          return False
        if all(t is True for t in ts):
          return True
      else:
        if any(t is True for t in ts):
          return True
        if all(t is False for t in ts):
          return False
    return None

  def iter_items(self, it):
    """Concrete items of an iterable term, or None."""
    if it.k in ('tuple', 'list'):
      return list(it.a)
    if it.k == 'dict':
      return [k for k, _ in it.a]
    if it.k == 'call' and it.a[0].k == 'ext':
      n = it.a[0].a[0]
      args = it.a[1]
      if n == 'range' and all(x.k == 'const' and isinstance(x.a[0], int) for x in args) and args:
        return [const(i) for i in range(*[x.a[0] for x in args])]
      if n == 'enumerate' and args:
        items = self.iter_items(args[0])
        start = 0
        for kn, kv in it.a[2]:
          if kn == 'start' and kv.k == 'const':
            start = kv.a[0]
        if len(args) > 1 and args[1].k == 'const':
          start = args[1].a[0]
        if items is not None:
          return [Term('tuple', const(i + start), x) for i, x in enumerate(items)]
      if n == 'zip':
        cols = [self.iter_items(x) for x in args]
        if all(c is not None for c in cols):
          return [Term('tuple', *row) for row in zip(*cols)]
      if n == 'reversed' and args:
        items = self.iter_items(args[0])
        if items is not None:
          return list(reversed(items))
    if it.k == 'call' and it.a[0].k == 'attr' and it.a[0].a[1] in ('items', 'keys', 'values') and it.a[0].a[0].k == 'dict':
      d = it.a[0].a[0]
      if it.a[0].a[1] == 'items':
        return [Term('tuple', k, v) for k, v in d.a]
      if it.a[0].a[1] == 'keys':
        return [k for k, _ in d.a]
      return [v for _, v in d.a]
    return None

  def exec_for(self, st, env, ctx):
    it = self.eval(st.iter, env, ctx)
    items = self.iter_items(it)
    if items is not None and len(items) <= self.opt.unroll_limit:
      for x in items:
        self.assign(st.target, x, env, ctx)
        if self.exec_block(st.body, env, ctx):
          return True
      if st.orelse:
        return self.exec_block(st.orelse, env, ctx)
      return False
    # symbolic loop: evaluate the body once over a loop-variable symbol
    uid = next(_uid)
    assigned = sorted(_assigned_names(st.body))
    inits = {}
    for n in assigned:
      if n in env:
        inits[n] = env[n]
        env[n] = Term('carried', n, uid, cls=env[n].cls)
    lv = Term('loopvar', _target_text(st.target), it, uid, loc=self.loc(st))
    self.assign(st.target, lv, env, ctx)
    ctx.path.append(Term('inloop', uid))
    try:
      self.exec_block(st.body, env, ctx)
    finally:
      ctx.path.pop()
    for n in assigned:
      if n in env:
        init = inits.get(n, UNBOUND)
        env[n] = Term('loop', n, init, env[n], lv, uid, cls=env[n].cls)
    return False

  def exec_while(self, st, env, ctx):
    uid = next(_uid)
    assigned = sorted(_assigned_names(st.body))
    inits = {}
    for n in assigned:
      if n in env:
        inits[n] = env[n]
        env[n] = Term('carried', n, uid, cls=env[n].cls)
    c = self.eval(st.test, env, ctx)
    lv = Term('loopvar', 'while', c, uid, loc=self.loc(st))
    ctx.path.append(Term('inloop', uid))
    try:
      self.exec_block(st.body, env, ctx)
    finally:
      ctx.path.pop()
    for n in assigned:
      if n in env:
        env[n] = Term('loop', n, inits.get(n, UNBOUND), env[n], lv, uid)
    return False

  # ------------------------------------------------------------- assignment
  def assign(self, target, v, env, ctx):
    if isinstance(target, ast.Name):
      env[norm_ident(target.id)] = v
      return
    if isinstance(target, (ast.Tuple, ast.List)):
      n = len(target.elts)
      items = None
      if v.k in ('tuple', 'list') and not any(isinstance(e, ast.Starred) for e in target.elts):
        if len(v.a) == n:
          items = list(v.a)
      if items is None and v.k == 'phi':
        a_items = self.unpack(v.a[1], n)
        b_items = self.unpack(v.a[2], n)
        items = [mk_phi(v.a[0], x, y) for x, y in zip(a_items, b_items)]
      if items is None:
        items = self.unpack(v, n)
      for e, x in zip(target.elts, items):
        if isinstance(e, ast.Starred):
          self.assign(e.value, x, env, ctx)
        else:
          self.assign(e, x, env, ctx)
      return
    if isinstance(target, ast.Subscript):
      idx = self.eval_index(target.slice, env, ctx)
      base = target.value
      if isinstance(base, ast.Name):
        name = norm_ident(base.id)
        cur = env.get(name, UNBOUND)
        if cur.k == 'list' and idx.k == 'const' and isinstance(idx.a[0], int) and -len(cur.a) <= idx.a[0] < len(cur.a):
          items = list(cur.a)
          items[idx.a[0]] = v
          env[name] = Term('list', *items)
        elif cur.k == 'dict' and idx.k == 'const':
          pairs = [(k, x) for k, x in cur.a if k != idx] + [(idx, v)]
          env[name] = Term('dict', *pairs)
        else:
          env[name] = Term('store', cur, idx, v, '=', cls=cur.cls, loc=self.loc(target))
      else:
        self.events.append(('store-nonlocal', (unparse(target), v), self.loc(target)))
      return
    if isinstance(target, ast.Attribute):
      if isinstance(target.value, ast.Name):
        name = norm_ident(target.value.id)
        cur = env.get(name, UNBOUND)
        env[name] = self.set_field(cur, target.attr, v)
      else:
        self.events.append(('store-nonlocal', (unparse(target), v), self.loc(target)))
      return
    if isinstance(target, ast.Starred):
      self.assign(target.value, v, env, ctx)

  def unpack(self, v, n):
    if v.k in ('tuple', 'list') and len(v.a) == n:
      return list(v.a)
    return [self.subscript(v, const(i)) for i in range(n)]

  def set_field(self, obj, name, v):
    if obj.k == 'obj':
      fields = tuple((n, x) for n, x in obj.a[1] if n != name) + ((name, v),)
      return Term('obj', obj.a[0], fields, obj.a[2], cls=obj.cls)
    cq = obj.cls.qualname if obj.cls is not None else '?'
    return Term('obj', cq, ((name, v),), obj, cls=obj.cls)

  # ------------------------------------------------------------ expressions
  def eval(self, node, env, ctx):
    m = getattr(self, 'e_' + type(node).__name__, None)
    if m is None:
      self.unresolved.append((f'expression {type(node).__name__}', self.loc(node)))
      return self.unknown(type(node).__name__, node)
    t = m(node, env, ctx)
    if t.loc is None and hasattr(node, 'lineno'):
      t.loc = self.loc(node)
    return t

  def e_Constant(self, node, env, ctx):
    return const(node.value)

  def e_Name(self, node, env, ctx):
    name = norm_ident(node.id)
    if name in env:
      v = env[name]
      return v
    # enclosing function scopes are merged into env by closures; module next
    mod = ctx.finfo.module
    v = self.module_name_lookup(mod, name)
    if v is not None:
      return v
    if name in _BUILTINS:
      return Term('ext', name)
    self.unresolved.append((f'name {name}', self.loc(node)))
    return Term('ext', name)

  def e_Attribute(self, node, env, ctx):
    base = self.eval(node.value, env, ctx)
    return self.getattr(base, node.attr, node, env, ctx)

  def e_Tuple(self, node, env, ctx):
    return Term('tuple', *self.eval_seq(node.elts, env, ctx))

  def e_List(self, node, env, ctx):
    return Term('list', *self.eval_seq(node.elts, env, ctx))

  def e_Set(self, node, env, ctx):
    return Term('set', *self.eval_seq(node.elts, env, ctx))

  def eval_seq(self, elts, env, ctx):
    out = []
    for e in elts:
      if isinstance(e, ast.Starred):
        v = self.eval(e.value, env, ctx)
        items = self.iter_items(v)
        if items is not None:
          out.extend(items)
        else:
          out.append(Term('star', v))
      else:
        out.append(self.eval(e, env, ctx))
    return out

  def e_Dict(self, node, env, ctx):
    pairs = []
    for k, v in zip(node.keys, node.values):
      if k is None:
        d = self.eval(v, env, ctx)
        if d.k == 'dict':
          for kk, vv in d.a:
            pairs = [(a, b) for a, b in pairs if a != kk] + [(kk, vv)]
        else:
          pairs.append((Term('kwstar', d), d))
      else:
        kk = self.eval(k, env, ctx)
        pairs = [(a, b) for a, b in pairs if a != kk] + [(kk, self.eval(v, env, ctx))]
    return Term('dict', *pairs)

  def e_BinOp(self, node, env, ctx):
    l = self.eval(node.left, env, ctx)
    r = self.eval(node.right, env, ctx)
    return self.binop(BINOPS[type(node.op)], l, r, node)

  def binop(self, op, l, r, node=None):
    if self.opt.fold_consts and l.k == 'const' and r.k == 'const':
      f = _fold_bin(op, l.a[0], r.a[0])
      if f is not None:
        return f
    op, l, r = canon_operands(op, l, r)
    if op == '+' and l.k == r.k and l.k in ('tuple', 'list') and not any(x.k == 'star' for x in l.a + r.a):
      return Term(l.k, *(l.a + r.a))
    if op == '*' and l.k in ('tuple', 'list') and r.k == 'const' and isinstance(r.a[0], int) and 0 <= r.a[0] <= 64:
      return Term(l.k, *(l.a * r.a[0]))
    if op == '|' and l.k == 'dict' and r.k == 'dict':
      pairs = list(l.a)
      for kk, vv in r.a:
        pairs = [(a, b) for a, b in pairs if a != kk] + [(kk, vv)]
      return Term('dict', *pairs)
    return Term('bin', op, l, r, loc=self.loc(node) if node is not None else None)

  def e_UnaryOp(self, node, env, ctx):
    x = self.eval(node.operand, env, ctx)
    op = UNOPS[type(node.op)]
    if x.k == 'const' and self.opt.fold_consts:
      v = x.a[0]
      try:
        if op == '-' and isinstance(v, (int, float, Fraction)) and not isinstance(v, bool):
          return const(-v)
        if op == '+':
          return x
        if op == 'not':
          return const(not v)
      except Exception:
        pass
    if op == 'not':
      t = self.truth(x)
      if t is not None:
        return const(not t)
    return Term('un', op, x)

  def e_BoolOp(self, node, env, ctx):
    vals = [self.eval(v, env, ctx) for v in node.values]
    op = 'and' if isinstance(node.op, ast.And) else 'or'
    # python semantics with known truth values
    out = []
    for v in vals:
      t = self.truth(v)
      if op == 'and':
        if t is True and v.k == 'const':
          continue
        if t is False:
          out.append(v)
          break
      else:
        if t is False and v.k == 'const':
          continue
        if t is True:
          out.append(v)
          break
      out.append(v)
    if not out:
      return vals[-1]
    if len(out) == 1:
      return out[0]
    return Term('bool', op, tuple(out))

  def e_Compare(self, node, env, ctx):
    operands = [self.eval(node.left, env, ctx)] + [self.eval(c, env, ctx) for c in node.comparators]
    ops = tuple(CMPOPS[type(o)] for o in node.ops)
    if len(ops) == 1 and operands[0].k == 'const' and operands[1].k == 'const':
      a, b = operands[0].a[0], operands[1].a[0]
      try:
        r = {'==': lambda: a == b, '!=': lambda: a != b, '<': lambda: a < b, '<=': lambda: a <= b,
             '>': lambda: a > b, '>=': lambda: a >= b, 'is': lambda: a is b or a == b and a is None,
             'is not': lambda: not (a is b or (a is None and b is None)),
             'in': lambda: a in b, 'not in': lambda: a not in b}[ops[0]]()
        return const(bool(r))
      except Exception:
        pass
    if len(ops) == 1 and ops[0] in ('==', '!=') and self.opt.fold_consts:
      # literal sequences of the same kind (e.g. two rows of a literal tableau)
      la, lb = _literal_seq(operands[0]), _literal_seq(operands[1])
      if la is not None and lb is not None and operands[0].k == operands[1].k:
        return const((la == lb) if ops[0] == '==' else (la != lb))
    if len(ops) == 1 and ops[0] in ('is', 'is not') and operands[1].k == 'const' and operands[1].a[0] is None:
      o = operands[0]
      if o.k in ('obj', 'tuple', 'list', 'dict', 'func', 'lambda', 'class', 'partial', 'bound', 'store') or (o.k == 'const'):
        isnone = o.k == 'const' and o.a[0] is None
        return const(isnone if ops[0] == 'is' else not isnone)
    if len(ops) == 1 and ops[0] in ('in', 'not in') and operands[1].k in ('tuple', 'list', 'set', 'dict') and operands[0].k == 'const':
      keys = [k if operands[1].k != 'dict' else k[0] for k in operands[1].a]
      if all(k.k == 'const' for k in keys):
        r = any(k == operands[0] for k in keys)
        return const(r if ops[0] == 'in' else not r)
    return Term('cmp', ops, tuple(operands))

  def e_IfExp(self, node, env, ctx):
    c = self.eval(node.test, env, ctx)
    t = self.truth(c)
    if t is True:
      return self.eval(node.body, env, ctx)
    if t is False:
      return self.eval(node.orelse, env, ctx)
    return mk_phi(c, self.eval(node.body, env, ctx), self.eval(node.orelse, env, ctx))

  def e_Lambda(self, node, env, ctx):
    fi = FuncInfo(node, ctx.finfo.module, parent=ctx.finfo, name=f'<lambda:{node.lineno}>')
    return self.make_lambda(fi, env)

  def e_JoinedStr(self, node, env, ctx):
    parts = []
    for v in node.values:
      if isinstance(v, ast.Constant):
        parts.append(str(v.value))
      elif isinstance(v, ast.FormattedValue):
        x = self.eval(v.value, env, ctx)
        if x.k == 'const' and v.conversion == -1 and v.format_spec is None:
          parts.append(str(x.a[0]))
        else:
          parts.append(x)
    if all(isinstance(p, str) for p in parts):
      return const(''.join(parts))
    return Term('fstr', *parts)

  def e_Starred(self, node, env, ctx):
    return Term('star', self.eval(node.value, env, ctx))

  def e_NamedExpr(self, node, env, ctx):
    v = self.eval(node.value, env, ctx)
    self.assign(node.target, v, env, ctx)
    return v

  def e_Slice(self, node, env, ctx):
    f = lambda x: self.eval(x, env, ctx) if x is not None else NONE
    return Term('slice', f(node.lower), f(node.upper), f(node.step))

  def eval_index(self, node, env, ctx):
    return self.eval(node, env, ctx)

  def e_Subscript(self, node, env, ctx):
    base = self.eval(node.value, env, ctx)
    idx = self.eval_index(node.slice, env, ctx)
    return self.subscript(base, idx, node)

  def subscript(self, base, idx, node=None):
    if idx.k == 'const' and isinstance(idx.a[0], int) and not isinstance(idx.a[0], bool):
      i = idx.a[0]
      if base.k in ('tuple', 'list') and -len(base.a) <= i < len(base.a) and not any(x.k == 'star' for x in base.a):
        return base.a[i]
      if base.k == 'phi':
        return mk_phi(base.a[0], self.subscript(base.a[1], idx, node), self.subscript(base.a[2], idx, node))
    if idx.k == 'const' and base.k == 'dict':
      for k, v in base.a:
        if k == idx:
          return v
    if idx.k == 'const' and base.k == 'const' and isinstance(base.a[0], (str, tuple)):
      try:
        return const(base.a[0][idx.a[0]])
      except Exception:
        pass
    if idx.k == 'slice' and base.k in ('tuple', 'list') and all(x.k == 'const' for x in idx.a) and not any(x.k == 'star' for x in base.a):
      try:
        s = slice(*[x.a[0] for x in idx.a])
        return Term(base.k, *base.a[s])
      except Exception:
        pass
    if idx.k == 'const' and base.k == 'meshgrid' and isinstance(idx.a[0], int):
      return Term('bcast', self.subscript(base.a[0], idx, node), idx.a[0])
    if idx.k == 'const' and base.k == 'mapover' and base.a[0].k in ('tuple', 'list'):
      inner = self.subscript(base.a[0], idx, node)
      return Term('mapover', inner, base.a[1], base.a[2])
    return Term('sub', base, idx, loc=self.loc(node) if node is not None else None)

  # comprehensions ---------------------------------------------------------
  def e_ListComp(self, node, env, ctx):
    return self.comp('list', node.elt, node.generators, env, ctx, node)

  def e_GeneratorExp(self, node, env, ctx):
    return self.comp('gen', node.elt, node.generators, env, ctx, node)

  def e_SetComp(self, node, env, ctx):
    return self.comp('set', node.elt, node.generators, env, ctx, node)

  def e_DictComp(self, node, env, ctx):
    pair = ast.Tuple(elts=[node.key, node.value], ctx=ast.Load())
    ast.copy_location(pair, node)
    r = self.comp('dictc', pair, node.generators, env, ctx, node)
    if r.k == 'list':
      return Term('dict', *[(x.a[0], x.a[1]) for x in r.a])
    return r

  def comp(self, kind, elt, gens, env, ctx, node):
    # try full unrolling
    results = []
    ok = [True]

    def rec(i, e):
      if not ok[0]:
        return
      if i == len(gens):
        results.append(self.eval(elt, e, ctx))
        return
      g = gens[i]
      it = self.eval(g.iter, e, ctx)
      items = self.iter_items(it)
      if items is None or len(items) > self.opt.unroll_limit * 4:
        ok[0] = False
        return
      for x in items:
        e2 = dict(e)
        self.assign(g.target, x, e2, ctx)
        keep = True
        for cond in g.ifs:
          t = self.truth(self.eval(cond, e2, ctx))
          if t is None:
            ok[0] = False
            return
          if not t:
            keep = False
            break
        if keep:
          rec(i + 1, e2)

    rec(0, dict(env))
    if ok[0]:
      return Term('list' if kind != 'set' else 'set', *results)
    # symbolic
    e = dict(env)
    gts = []
    uid = next(_uid)
    for g in gens:
      it = self.eval(g.iter, e, ctx)
      lv = Term('loopvar', _target_text(g.target), it, uid, loc=self.loc(node))
      self.assign(g.target, lv, e, ctx)
      conds = tuple(self.eval(c, e, ctx) for c in g.ifs)
      gts.append(Term('gen', lv, conds))
    body = self.eval(elt, e, ctx)
    return Term('comp', kind, body, tuple(gts), loc=self.loc(node))

  # ------------------------------------------------------------- attributes
  def ext_name(self, t):
    return t.a[0] if t.k == 'ext' else None

  def hinted_class(self, owner: ClassInfo, field):
    for c in owner.mro():
      q = self.type_hints.get((c.qualname, field))
      if q:
        return self.prog.classes.get(q)
    return None

  def getattr(self, base, name, node, env, ctx):
    k = base.k
    if k == 'module':
      mod = self.prog.modules[base.a[0]]
      v = self.module_name_lookup(mod, name)
      if v is not None:
        return v
      sub = f'{mod.name}.{name}'
      if sub in self.prog.modules:
        return Term('module', sub)
      self.unresolved.append((f'{mod.name}.{name}', self.loc(node)))
      return Term('ext', sub)
    if k == 'ext':
      dotted = f'{base.a[0]}.{name}'
      kind, val = self.prog.resolve_dotted(dotted)
      if kind != 'ext':
        return self.dotted_term(dotted)
      return Term('ext', dotted)
    if k == 'class':
      c = self.prog.classes[base.a[0]]
      if name == '__name__':
        return const(c.name)
      m = c.find_method(name)
      if m is not None:
        if m.is_classmethod():
          return Term('bound', base, m.qualname)
        return Term('func', m.qualname)
      ca = c.find_class_assign(name)
      if ca is not None:
        return self.eval_module_expr(ca[1].module, ca[0])
      return Term('attr', base, name)
    if k == 'phi':
      return mk_phi(base.a[0], self.getattr(base.a[1], name, node, env, ctx), self.getattr(base.a[2], name, node, env, ctx))
    if k == 'obj':
      for n, v in base.a[1]:
        if n == name:
          return v
      cls = base.cls
      if cls is not None:
        r = self.class_attr(base, cls, name, node, env, ctx, fallback=base.a[2])
        if r is not None:
          return r
      if isinstance(base.a[2], Term):
        return self.getattr(base.a[2], name, node, env, ctx)
      return Term('attr', base, name)
    if k == 'super':
      cur = self.prog.classes[base.a[1]]
      selfv = base.a[0]
      dyn = selfv.cls or cur
      m = dyn.find_method(name, after=cur) if cur in dyn.mro() else cur.find_method(name, after=cur)
      if m is None:
        return Term('attr', base, name)
      if m.is_property():
        return self.invoke(m, [selfv], [], ctx, node)
      return Term('bound', selfv, m.qualname)
    if k == 'call' and base.a[0].k == 'ext' and base.a[0].a[0] == 'tree_math.Vector' and name == 'tree':
      return base.a[1][0]
    if k == 'partial' and name in ('func',):
      return base.a[0]
    if name == 'tree' and self.opt.identity_arrays:
      return base
    if name == '__name__' and k == 'func':
      return const(base.a[0].rsplit('.', 1)[-1])
    if base.cls is not None:
      r = self.class_attr(base, base.cls, name, node, env, ctx)
      if r is not None:
        return r
    return Term('attr', base, name, loc=self.loc(node) if node is not None else None)

  def class_attr(self, base, cls, name, node, env, ctx, fallback=None):
    m = cls.find_method(name)
    if m is not None:
      if m.is_property():
        if not is_abstract(m) and self.opt.may_inline(m) and self.can_enter(m, ctx):
          v = self.invoke(m, [base], [], ctx, node)
          return v
        rc = self.prog.resolve_class_expr(m.node.returns, m.module) if m.node.returns is not None else None
        return Term('attr', base, name, cls=rc)
      if m.is_classmethod():
        return Term('bound', self.class_term(cls), m.qualname)
      if m.is_staticmethod():
        return Term('func', m.qualname)
      return Term('bound', base, m.qualname)
    f = cls.find_field(name)
    if f is not None:
      fc = self.hinted_class(cls, name) or self.prog.resolve_class_expr(f[1], f[3].module)
      tgt = fallback if isinstance(fallback, Term) else base
      return Term('attr', tgt, name, cls=fc)
    ca = cls.find_class_assign(name)
    if ca is not None:
      return self.eval_module_expr(ca[1].module, ca[0])
    # attributes assigned in __init__ (non-dataclass classes)
    init = cls.find_method('__init__')
    if init is not None and fallback is None:
      for st in ast.walk(init.node):
        if isinstance(st, ast.Attribute) and st.attr == name and isinstance(st.ctx, ast.Store):
          return Term('attr', base, name)
    return None

  # ------------------------------------------------------------------ calls
  def e_Call(self, node, env, ctx):
    # d.pop('k') on a known dict bound to a local name: value + removal
    nf = node.func
    if (isinstance(nf, ast.Attribute) and nf.attr == 'pop' and isinstance(nf.value, ast.Name) and len(node.args) >= 1
        and not node.keywords):
      name = norm_ident(nf.value.id)
      cur = env.get(name)
      if cur is not None and cur.k == 'dict':
        key = self.eval(node.args[0], env, ctx)
        if key.k == 'const':
          for kk, vv in cur.a:
            if kk == key:
              env[name] = Term('dict', *[(a, b) for a, b in cur.a if a != key])
              return vv
          if len(node.args) > 1 and all(kk.k == 'const' for kk, _ in cur.a):
            return self.eval(node.args[1], env, ctx)
    f = self.eval(node.func, env, ctx)
    args = []
    for a in node.args:
      if isinstance(a, ast.Starred):
        v = self.eval(a.value, env, ctx)
        items = self.iter_items(v)
        if items is not None:
          args.extend(items)
        else:
          args.append(Term('star', v))
      else:
        args.append(self.eval(a, env, ctx))
    kwargs = []
    for kw in node.keywords:
      v = self.eval(kw.value, env, ctx)
      if kw.arg is None:
        if v.k == 'dict' and all(kk.k == 'const' and isinstance(kk.a[0], str) for kk, _ in v.a):
          kwargs.extend((kk.a[0], vv) for kk, vv in v.a)
        elif v.k == 'phi' and all(x.k == 'dict' for x in v.a[1:]):
          # e.g. kwargs = dict(spmd_mesh=...) if mesh is not None else dict()
          keys = []
          for d in v.a[1:]:
            for kk, _ in d.a:
              if kk.k == 'const' and kk.a[0] not in keys:
                keys.append(kk.a[0])
          for key in keys:
            va = next((vv for kk, vv in v.a[1].a if cval(kk) == key), UNBOUND)
            vb = next((vv for kk, vv in v.a[2].a if cval(kk) == key), UNBOUND)
            kwargs.append((key, mk_phi(v.a[0], va, vb)))
        else:
          kwargs.append(('**', v))
      else:
        kwargs.append((norm_ident(kw.arg), v))
    return self.call(f, args, kwargs, env, ctx, node)

  def can_enter(self, f, ctx):
    if ctx.depth + 1 > self.opt.max_depth:
      return False
    if sum(1 for s in self.stack if s is f) >= 1:
      return False
    return True

  def record_call(self, f, ctx, node):
    self.calls.append((ctx.finfo.qualname, f, self.loc(node) if node is not None else None))

  def call(self, f, args, kwargs, env, ctx, node):
    self.record_call(f, ctx, node)
    k = f.k
    loc = self.loc(node) if node is not None else None
    if k == 'phi':
      return mk_phi(f.a[0], self.call(f.a[1], args, kwargs, env, ctx, node), self.call(f.a[2], args, kwargs, env, ctx, node))
    if k == 'partial':
      kw = dict(f.a[2])
      kw.update(dict(kwargs))
      return self.call(f.a[0], list(f.a[1]) + list(args), list(kw.items()), env, ctx, node)
    if k == 'bound':
      fi = self.prog.funcs.get(f.a[1])
      if fi is None:
        return mk_call(f, args, kwargs, loc=loc)
      return self.call_func(fi, None, [f.a[0]] + list(args), kwargs, ctx, node, callee_term=f)
    if k in ('func', 'lambda'):
      fi, cenv = self.get_func(f)
      if fi is None:
        return mk_call(f, args, kwargs, loc=loc)
      return self.call_func(fi, cenv, args, kwargs, ctx, node, callee_term=f)
    if k == 'class':
      return self.instantiate(self.prog.classes[f.a[0]], args, kwargs, ctx, node)
    if k == 'ext':
      return self.call_ext(f, args, kwargs, env, ctx, node)
    if k == 'call' and f.a[0].k == 'ext' and f.a[0].a[0] in TRANSPARENT:
      # call of a wrapped callable: jax.named_call(f, name=…)(x)
      inner = f.a[1][0] if f.a[1] else None
      if inner is None:
        # decorator factory used with keywords only: functools.partial handled elsewhere
        if args:
          return mk_call(f.a[0], [args[0]] + list(f.a[1]), f.a[2], loc=loc)
        return mk_call(f, args, kwargs, loc=loc)
      self.events.append(('wrapped-call', (f.a[0].a[0], f, tuple(args)), loc))
      return self.call(inner, args, kwargs, env, ctx, node)
    if k == 'attr':
      m = self.method_model(f, args, kwargs, env, ctx, node)
      if m is not None:
        return m
    if k == 'sub' and f.a[0].k == 'dict':
      pass
    cls = None
    return mk_call(f, args, kwargs, cls=cls, loc=loc)

  def method_model(self, f, args, kwargs, env, ctx, node):
    """Models of a few container methods on known structures."""
    base, name = f.a[0], f.a[1]
    if name == 'asdict' and not args:
      d = self.asdict(base)
      if d is not None:
        return d
    if base.k == 'dict':
      if name == 'items' or name == 'keys' or name == 'values':
        return None
      if name == 'get' and args and args[0].k == 'const':
        for kk, vv in base.a:
          if kk == args[0]:
            return vv
        if all(kk.k == 'const' for kk, _ in base.a):
          return args[1] if len(args) > 1 else NONE
      if name == 'copy' and not args:
        return base
    if name in ('set', 'add') and base.k == 'sub' and base.a[0].k == 'attr' and base.a[0].a[1] == 'at' and len(args) == 1:
      arr = base.a[0].a[0]
      return Term('store', arr, base.a[1], args[0], '=' if name == 'set' else '+=', cls=arr.cls, loc=self.loc(node) if node is not None else None)
    if name == 'copy' and not args:
      return base
    return None

  def asdict(self, base):
    cls = base.cls
    if base.k == 'obj':
      cls = cls or self.prog.classes.get(base.a[0])
    if cls is None or not cls.is_dataclass():
      return None
    pairs = []
    for fname, ann, default, owner in cls.all_fields():
      v = None
      if base.k == 'obj':
        for n, x in base.a[1]:
          if n == fname:
            v = x
      if v is None:
        v = Term('attr', base if base.k != 'obj' or not isinstance(base.a[2], Term) else base.a[2], fname)
        if base.k == 'obj' and not isinstance(base.a[2], Term):
          v = Term('attr', base, fname)
      pairs.append((const(fname), v))
    return Term('dict', *pairs)

  def bind_args(self, fi, args, kwargs, ctx, node):
    """Binds call arguments to parameters → env dict (or None if impossible)."""
    a = fi.args
    pos = [norm_ident(x.arg) for x in a.posonlyargs + a.args]
    defaults = [None] * (len(pos) - len(a.defaults)) + list(a.defaults)
    env = {}
    if any(x.k == 'star' for x in args):
      return None
    extra = []
    for i, v in enumerate(args):
      if i < len(pos):
        env[pos[i]] = v
      else:
        extra.append(v)
    if extra and not a.vararg:
      return None
    if a.vararg:
      env[norm_ident(a.vararg.arg)] = Term('tuple', *extra)
    kwonly = [norm_ident(x.arg) for x in a.kwonlyargs]
    rest = []
    for n, v in kwargs:
      if n == '**':
        rest.append((Term('kwstar', v), v))
        continue
      if n in pos or n in kwonly:
        env[n] = v
      elif a.kwarg:
        rest.append((const(n), v))
      else:
        return None
    if a.kwarg:
      env[norm_ident(a.kwarg.arg)] = Term('dict', *rest)
    elif rest:
      pass
    for n, d in zip(pos, defaults):
      if n not in env:
        if d is None:
          if any(nm == '**' for nm, _ in kwargs):
            env[n] = self.unknown(f'param {n} from **kwargs', node)
            continue
          return None
        env[n] = self.eval_module_expr(fi.module, d)
    for x, d in zip(a.kwonlyargs, a.kw_defaults):
      n = norm_ident(x.arg)
      if n not in env:
        if d is None:
          if any(nm == '**' for nm, _ in kwargs):
            env[n] = self.unknown(f'param {n} from **kwargs', node)
            continue
          return None
        env[n] = self.eval_module_expr(fi.module, d)
    # annotate untyped argument terms with the parameter's class
    for x in a.posonlyargs + a.args + a.kwonlyargs:
      n = norm_ident(x.arg)
      v = env.get(n)
      if v is not None and v.cls is None and x.annotation is not None and v.k in ('sym', 'attr', 'call', 'sub', 'unknown'):
        c = self.prog.resolve_class_expr(x.annotation, fi.module)
        if c is not None:
          env[n] = v.with_cls(c)
    return env

  def canonical_args(self, fi, args, kwargs):
    """Call arguments of a resolved repo callee in canonical form: the longest gap-free prefix of the
    parameter list is positional (whether it was written positionally or by keyword), the rest stays
    keyword in parameter order.  `f(x, mesh)`, `f(x, mesh=mesh)` and `f(field=x, mesh=mesh)` give one term."""
    a = fi.args
    if a.vararg is not None or a.posonlyargs or any(x.k == 'star' for x in args) or any(n == '**' for n, _ in kwargs):
      return list(args), list(kwargs)
    pos = [norm_ident(x.arg) for x in a.args]
    if len(args) > len(pos):
      return list(args), list(kwargs)
    kw = dict(kwargs)
    if len(kw) != len(kwargs) or any(n in pos[:len(args)] for n in kw):
      return list(args), list(kwargs)
    out = list(args)
    i = len(args)
    while i < len(pos) and pos[i] in kw:
      out.append(kw.pop(pos[i]))
      i += 1
    order = {n: j for j, n in enumerate(pos + [norm_ident(x.arg) for x in a.kwonlyargs])}
    rest = sorted(kw.items(), key=lambda nv: (order.get(nv[0], len(order)), nv[0]))
    return out, rest

  def return_class(self, fi):
    if fi.node is not None and getattr(fi.node, 'returns', None) is not None:
      return self.prog.resolve_class_expr(fi.node.returns, fi.module)
    return None

  def call_func(self, fi, cenv, args, kwargs, ctx, node, callee_term=None):
    loc = self.loc(node) if node is not None else None
    opaque_term = callee_term if callee_term is not None else Term('func', fi.qualname)
    args, kwargs = self.canonical_args(fi, args, kwargs)
    if fi.qualname == 'dinosaur.pytree_utils.tree_map_over_nonscalars' and self.opt.model_nonscalar and len(args) == 2 and not kwargs:
      return self.tree_map(args[0], [args[1]], {}, ctx, node)
    if fi.qualname == 'dinosaur.spherical_harmonic._with_vertical_padding' and self.opt.model_vertical_padding and args:
      return args[0]
    if is_abstract(fi) or not self.opt.may_inline(fi) or not self.can_enter(fi, ctx):
      rc = self.return_class(fi)
      if rc is None and fi.name in SAME_TYPE_CALLS:
        data = [x for x in args if not (fi.cls is not None and x is args[0])]
        if data and data[0].cls is not None:
          rc = data[0].cls
      return mk_call(opaque_term, args, kwargs, cls=rc, loc=loc)
    return self.invoke(fi, args, kwargs, ctx, node, cenv=cenv, opaque_term=opaque_term)

  def invoke(self, fi, args, kwargs, ctx, node, cenv=None, opaque_term=None):
    loc = self.loc(node) if node is not None else None
    bound = self.bind_args(fi, args, kwargs, ctx, node)
    if bound is None:
      self.unresolved.append((f'cannot bind arguments of {fi.qualname}', loc))
      return mk_call(opaque_term or Term('func', fi.qualname), args, kwargs, cls=self.return_class(fi), loc=loc)
    env = dict(cenv or {})
    env.update(bound)
    sub = Ctx(fi, ctx.depth + 1)
    self.stack.append(fi)
    try:
      self.exec_block(fi.body, env, sub)
    finally:
      self.stack.pop()
    for path, exc, l in sub.raises:
      self.raises.append((fi.qualname, path, exc, l))
    if not sub.returns:
      return NONE
    value = self.merge_returns(sub.returns)
    # decorators that change the value (only transparent ones are expected)
    if value.cls is None:
      rc = self.return_class(fi)
      if rc is not None and value.k in ('call', 'attr', 'sub', 'sym', 'unknown'):
        value = value.with_cls(rc)
    return value

  def instantiate(self, cls, args, kwargs, ctx, node):
    loc = self.loc(node) if node is not None else None
    init = cls.find_method('__init__')
    uid = next(_uid)
    if init is not None and init.cls.qualname.startswith('dinosaur.'):
      selfobj = Term('obj', cls.qualname, (), uid, cls=cls, loc=loc)
      if self.opt.may_inline(init) and self.can_enter(init, ctx):
        bound = self.bind_args(init, [selfobj] + list(args), kwargs, ctx, node)
        if bound is not None:
          env = dict(bound)
          sub = Ctx(init, ctx.depth + 1)
          self.stack.append(init)
          try:
            self.exec_block(init.body, env, sub)
          finally:
            self.stack.pop()
          for path, exc, l in sub.raises:
            self.raises.append((init.qualname, path, exc, l))
          sname = norm_ident(init.args.args[0].arg)
          out = env.get(sname, selfobj)
          return out
      return mk_call(self.class_term(cls), args, kwargs, cls=cls, loc=loc)
    if cls.is_dataclass():
      fields = cls.all_fields()
      names = [f[0] for f in fields]
      vals = {}
      if any(x.k == 'star' for x in args) or len(args) > len(names):
        return mk_call(self.class_term(cls), args, kwargs, cls=cls, loc=loc)
      for n, v in zip(names, args):
        vals[n] = v
      opaque_kw = False
      for n, v in kwargs:
        if n == '**':
          opaque_kw = True
          continue
        vals[n] = v
      if opaque_kw:
        return mk_call(self.class_term(cls), args, kwargs, cls=cls, loc=loc)
      for n, ann, d, owner in fields:
        if n not in vals and d is not None:
          vals[n] = self.eval_module_expr(owner.module, d)
      obj = Term('obj', cls.qualname, tuple((n, vals[n]) for n in names if n in vals), uid, cls=cls, loc=loc)
      self.events.append(('construct', obj, loc))
      return obj
    return mk_call(self.class_term(cls), args, kwargs, cls=cls, loc=loc)

  # ---------------------------------------------------------- ext functions
  def call_ext(self, f, args, kwargs, env, ctx, node):
    n = f.a[0]
    loc = self.loc(node) if node is not None else None
    if n == 'functools.partial' and args:
      return Term('partial', args[0], tuple(args[1:]), tuple(kwargs))
    if n in TRANSPARENT:
      if args and args[0].k in ('func', 'lambda', 'bound', 'partial', 'class') or (args and args[0].k == 'call' and args[0].a[0].k == 'ext' and args[0].a[0].a[0] in TRANSPARENT):
        self.events.append(('wrap', (n, tuple(args), tuple(kwargs)), loc))
        if n == 'jax.experimental.shard_map.shard_map' or n in ('jax.vmap', 'jax.numpy.vectorize'):
          return mk_call(f, args, kwargs, loc=loc)  # call-of-call unwraps
        return args[0]
      return mk_call(f, args, kwargs, loc=loc)
    if n in TREE_MAPS and args:
      return self.tree_map(args[0], list(args[1:]), env, ctx, node)
    if n == 'dinosaur.pytree_utils.tree_map_over_nonscalars':
      pass
    if n == 'len' and len(args) == 1:
      if args[0].k in ('tuple', 'list') and not any(isinstance(x, Term) and x.k == 'star' for x in args[0].a):
        return const(len(args[0].a))
      if args[0].k == 'const' and isinstance(args[0].a[0], (str, tuple)):
        return const(len(args[0].a[0]))
    if n in ('tuple', 'list') and len(args) == 1:
      items = self.iter_items(args[0])
      if items is not None:
        return Term(n, *items)
      if args[0].k == n:
        return args[0]
    if n in ('tuple', 'list', 'dict') and not args and not kwargs:
      return Term(n)
    if n == 'dict' and not args:
      return Term('dict', *[(const(k), v) for k, v in kwargs if k != '**'])
    if n == 'dict' and len(args) == 1 and args[0].k == 'list' and all(x.k == 'tuple' and len(x.a) == 2 for x in args[0].a):
      return Term('dict', *[(x.a[0], x.a[1]) for x in args[0].a])
    if n == 'getattr' and len(args) >= 2 and args[1].k == 'const' and isinstance(args[1].a[0], str):
      return self.getattr(args[0], args[1].a[0], node, env, ctx)
    if n == 'object.__setattr__' and len(args) == 3 and args[1].k == 'const':
      # find the local name bound to args[0] and rebind it
      for name, v in list(env.items()):
        if v is args[0] or (v == args[0] and v.k in ('sym', 'obj')):
          env[name] = self.set_field(v, args[1].a[0], args[2])
          break
      return NONE
    if n == 'dataclasses.asdict' and len(args) == 1:
      d = self.asdict(args[0])
      if d is not None:
        return d
    if n == 'dataclasses.replace' and args:
      out = args[0]
      for kn, kv in kwargs:
        if kn != '**':
          out = self.set_field(out, kn, kv)
      return out
    if n == 'super':
      cur = ctx.finfo
      while cur is not None and cur.cls is None:
        cur = cur.parent
      if cur is not None and cur.cls is not None:
        sname = norm_ident(cur.args.args[0].arg) if cur.args.args else 'self'
        selfv = env.get(sname)
        if selfv is not None:
          return Term('super', selfv, cur.cls.qualname, cls=None)
    if n == 'isinstance' or n == 'hasattr':
      return mk_call(f, args, kwargs, loc=loc)
    if n == 'type' and len(args) == 1 and args[0].cls is not None:
      return Term('typeof', args[0], cls=None)
    if n in IDENTITY_CALLS and self.opt.identity_arrays and len(args) == 1 and not kwargs and args[0].k not in ('list', 'tuple', 'const'):
      return args[0]
    if n in ('int', 'float', 'bool') and len(args) == 1 and args[0].k == 'const':
      try:
        return const({'int': int, 'float': float, 'bool': bool}[n](args[0].a[0]))
      except Exception:
        pass
    if n == 'sum' and len(args) >= 1:
      items = self.iter_items(args[0])
      if items is not None and 0 < len(items) <= 32:
        acc = items[0] if len(args) == 1 else self.binop('+', args[1], items[0])
        for x in items[1:]:
          acc = self.binop('+', acc, x)
        return acc
    if n in ('any', 'all') and len(args) == 1:
      items = self.iter_items(args[0])
      if items is not None:
        ts = [self.truth(x) for x in items]
        if n == 'any':
          if any(t is True for t in ts):
            return TRUE
          if all(t is False for t in ts):
            return FALSE
        else:
          if any(t is False for t in ts):
            return FALSE
          if all(t is True for t in ts):
            return TRUE
    if n in ('min', 'max') and args and all(x.k == 'const' for x in args) and len(args) > 1:
      try:
        return const({'min': min, 'max': max}[n](*[x.a[0] for x in args]))
      except Exception:
        pass
    if n == 'numpy.meshgrid' and dict(kwargs).get('indexing') == const('ij'):
      if len(args) == 1 and args[0].k == 'star':
        return Term('meshgrid', args[0].a[0], loc=loc)
      if args and not any(x.k == 'star' for x in args):
        return Term('tuple', *[Term('bcast', x, i) for i, x in enumerate(args)])
    if n == 'slice':
      if len(args) == 1:
        return Term('slice', NONE, args[0], NONE)
      if len(args) == 2:
        return Term('slice', args[0], args[1], NONE)
      if len(args) == 3:
        return Term('slice', *args)
    return mk_call(f, args, kwargs, loc=loc)

  # -------------------------------------------------------------- tree maps
  def tree_struct(self, t):
    """Children of a structured tree term, or None for a leaf/opaque tree."""
    if t.k in ('tuple', 'list'):
      if any(x.k == 'star' for x in t.a):
        return None
      return ('seq', t.k, list(t.a))
    if t.k == 'dict':
      return ('dict', None, list(t.a))
    if t.k == 'obj' and t.cls is not None and t.cls.is_struct():
      return ('obj', t, [v for _, v in t.a[1]])
    return None

  def is_leaf(self, t):
    if t.k in ('tuple', 'list', 'dict', 'obj'):
      return False
    if t.cls is not None and t.cls.is_struct():
      return False
    return True

  def tree_map(self, fn, trees, env, ctx, node):
    first = trees[0]
    st = self.tree_struct(first)
    if st is not None:
      kind, meta, kids = st
      others = []
      for t in trees[1:]:
        so = self.tree_struct(t)
        if so is None or len(so[2]) != len(kids):
          others = None
          break
        others.append(so[2])
      if others is not None:
        outs = []
        for i, kid in enumerate(kids):
          if kind == 'dict':
            sub = self.tree_map(fn, [kid[1]] + [o[i][1] for o in others], env, ctx, node)
            outs.append((kid[0], sub))
          else:
            outs.append(self.tree_map(fn, [kid] + [o[i] for o in others], env, ctx, node))
        if kind == 'seq':
          return Term(meta, *outs)
        if kind == 'dict':
          return Term('dict', *outs)
        names = [n for n, _ in meta.a[1]]
        return Term('obj', meta.a[0], tuple(zip(names, outs)), next(_uid), cls=meta.cls)
    if first.k == 'phi' and len(trees) == 1:
      return mk_phi(first.a[0], self.tree_map(fn, [first.a[1]], env, ctx, node), self.tree_map(fn, [first.a[2]], env, ctx, node))
    # typed opaque struct: map field-wise
    if first.cls is not None and first.cls.is_struct() and first.k != 'obj':
      names = [f[0] for f in first.cls.all_fields()]
      outs = []
      for n in names:
        outs.append(self.tree_map(fn, [Term('attr', t, n) for t in trees], env, ctx, node))
      return Term('obj', first.cls.qualname, tuple(zip(names, outs)), next(_uid), cls=first.cls)
    # leaves (arrays / opaque sub-trees): apply fn to leaf symbols
    if all(t.k == 'const' and t.a[0] is None for t in trees):
      return NONE
    opaque_tree = any(self.looks_like_tree(t) for t in trees)
    if not opaque_tree:
      return self.call(fn, trees, [], env, ctx, node)
    leaves = [Term('leaf', t) for t in trees]
    body = self.call(fn, leaves, [], env, ctx, node)
    return Term('mapover', body, tuple(trees), tuple(leaves))

  TREE_ATTRS = {'tracers'}

  def looks_like_tree(self, t):
    if t.k == 'attr' and t.a[1] in self.TREE_ATTRS:
      return True
    if t.k == 'mapover':
      return True
    if t.k == 'sym' and t.a[0].startswith('tree:'):
      return True
    return False


_BUILTINS = {
    'len', 'range', 'sum', 'min', 'max', 'abs', 'all', 'any', 'zip', 'map', 'enumerate', 'tuple',
    'list', 'dict', 'set', 'int', 'float', 'bool', 'str', 'isinstance', 'hasattr', 'getattr',
    'setattr', 'type', 'super', 'round', 'divmod', 'sorted', 'reversed', 'slice', 'filter',
    'print', 'repr', 'hash', 'iter', 'next', 'object', 'ValueError', 'TypeError', 'KeyError',
    'NotImplementedError', 'Exception', 'AssertionError', 'RuntimeError', 'pow', 'callable',
    'frozenset', 'bytes', 'complex', 'id', 'issubclass', 'property', 'staticmethod', 'classmethod',
    'Ellipsis', 'NotImplemented', 'IndexError', 'StopIteration', 'vars', 'dir', 'open', 'format',
}


def _literal_seq(t):
  """Python value of a list / tuple term made of numeric literals (nested allowed), else None."""
  if t.k not in ('list', 'tuple'):
    return None
  out = []
  for x in t.a:
    if x.k == 'const' and isinstance(x.a[0], (int, float, Fraction)) and not isinstance(x.a[0], bool):
      out.append(Fraction(x.a[0]) if not isinstance(x.a[0], float) or x.a[0] == x.a[0] else x.a[0])
    elif x.k in ('list', 'tuple'):
      sub = _literal_seq(x)
      if sub is None:
        return None
      out.append(sub)
    else:
      return None
  return out


def is_abstract(f: FuncInfo):
  if isinstance(f.node, ast.Lambda):
    return False
  body = [st for st in f.body if not (isinstance(st, ast.Expr) and isinstance(st.value, ast.Constant))]
  if body and isinstance(body[-1], ast.Raise) and 'NotImplementedError' in unparse(body[-1]) \
      and not any(isinstance(n, (ast.Return, ast.Yield)) for st in body for n in ast.walk(st)):
    return True   # whatever precedes it, the member can only raise NotImplementedError
  has_value_return = any(isinstance(n, ast.Return) and n.value is not None for st in f.body for n in ast.walk(st))
  if not has_value_return and (any(isinstance(st, ast.Expr) and isinstance(st.value, ast.Constant) and st.value.value is Ellipsis for st in f.body)
                               or (f.cls is not None and any('Protocol' in unparse(b) for b in f.cls.bases_ast))):
    return True   # `...` stub or Protocol member that returns nothing: an interface declaration
  if not body or (len(body) == 1 and isinstance(body[0], ast.Pass)):
    # `...` / docstring-only bodies of Protocol members
    return any(isinstance(st, ast.Expr) and isinstance(st.value, ast.Constant) and st.value.value is Ellipsis for st in f.body) or f.cls is not None and any(
        'Protocol' in unparse(b) for b in f.cls.bases_ast)
  return False


def _fold_bin(op, a, b):
  num = (int, float, Fraction)
  if isinstance(a, bool) or isinstance(b, bool):
    return None
  try:
    if isinstance(a, num) and isinstance(b, num):
      if op == '+':
        return const(a + b)
      if op == '-':
        return const(a - b)
      if op == '*':
        return const(a * b)
      if op == '/':
        if isinstance(a, (int, Fraction)) and isinstance(b, (int, Fraction)) and b != 0:
          r = Fraction(a) / Fraction(b)
          return const(int(r) if r.denominator == 1 and False else r)
        if b != 0:
          return const(a / b)
      if op == '//' and b != 0:
        return const(a // b)
      if op == '%' and b != 0:
        return const(a % b)
      if op == '**':
        if isinstance(b, int) and abs(b) <= 64 and isinstance(a, (int, Fraction)):
          if b >= 0:
            return const(a ** b)
          if a != 0:
            return const(Fraction(a) ** b)
        if isinstance(a, float) or isinstance(b, float):
          return const(float(a) ** float(b))
    if isinstance(a, str) and isinstance(b, str) and op == '+':
      return const(a + b)
    if isinstance(a, tuple) and isinstance(b, tuple) and op == '+':
      return const(a + b)
  except Exception:
    return None
  return None


def _load(target):
  t = ast.parse(unparse(target), mode='eval').body
  ast.copy_location(t, target)
  for n in ast.walk(t):
    ast.copy_location(n, target)
  return t


def _assigned_names(stmts):
  out = set()
  for st in stmts:
    for n in ast.walk(st):
      if isinstance(n, (ast.FunctionDef, ast.Lambda)):
        pass
      if isinstance(n, ast.Name) and isinstance(n.ctx, ast.Store):
        out.add(norm_ident(n.id))
      elif isinstance(n, (ast.Subscript, ast.Attribute)) and isinstance(n.ctx, ast.Store):
        b = n.value
        while isinstance(b, (ast.Subscript, ast.Attribute)):
          b = b.value
        if isinstance(b, ast.Name):
          out.add(norm_ident(b.id))
      elif isinstance(n, ast.AugAssign):
        b = n.target
        while isinstance(b, (ast.Subscript, ast.Attribute)):
          b = b.value
        if isinstance(b, ast.Name):
          out.add(norm_ident(b.id))
      elif isinstance(n, ast.Expr) and isinstance(n.value, ast.Call) and isinstance(n.value.func, ast.Attribute):
        f = n.value.func
        if f.attr in ('append', 'extend', 'update') and isinstance(f.value, ast.Name):
          out.add(norm_ident(f.value.id))
  return out


def _target_text(t):
  return norm_ident(unparse(t))
