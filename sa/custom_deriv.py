"""Hand-written derivative rules (jax.custom_jvp / jax.custom_vjp): every differentiable argument's tangent must reach the result.

A custom rule replaces what automatic differentiation would have derived from the primal code, so the static taint argument of C08
("only smooth primitives between the state and the result") says nothing about a function that carries one.  What can be decided
from the shape of the rule: a JVP rule whose returned tangent does not depend on the tangent of differentiable argument i declares
∂f/∂xᵢ ≡ 0 in both modes (the VJP is its transpose), which contradicts a primal that reads xᵢ.

  scan(tree) -> [Site]      Site(kind, name, lineno, nargs, nondiff, problems=[(arg index or name, text)])
"""
from __future__ import annotations

import ast
import dataclasses


@dataclasses.dataclass
class Site:
  kind: str          # 'custom_jvp' | 'custom_vjp'
  name: str
  lineno: int
  params: list
  nondiff: tuple
  rule: str = ''     # name of the rule function(s)
  fwd: str = ''
  wholesale: bool = False
  problems: list = dataclasses.field(default_factory=list)


def _dotted(n):
  if isinstance(n, ast.Name):
    return n.id
  if isinstance(n, ast.Attribute):
    b = _dotted(n.value)
    return f'{b}.{n.attr}' if b else None
  return None


def _custom_kind(dec):
  """'custom_jvp' / 'custom_vjp' and the nondiff_argnums for a decorator expression (or None)."""
  d = _dotted(dec)
  if d and d.split('.')[-1] in ('custom_jvp', 'custom_vjp'):
    return d.split('.')[-1], ()
  if isinstance(dec, ast.Call):
    fn = _dotted(dec.func) or ''
    inner = None
    if fn.split('.')[-1] == 'partial' and dec.args:
      inner = _dotted(dec.args[0]) or ''
    elif fn.split('.')[-1] in ('custom_jvp', 'custom_vjp'):
      inner = fn
    if inner and inner.split('.')[-1] in ('custom_jvp', 'custom_vjp'):
      nd = ()
      for kw in dec.keywords:
        if kw.arg == 'nondiff_argnums':
          try:
            v = ast.literal_eval(kw.value)
            nd = tuple(v) if isinstance(v, (tuple, list)) else (v,)
          except Exception:
            nd = ('?',)
      return inner.split('.')[-1], nd
  return None


def _names(node):
  return {n.id for n in ast.walk(node) if isinstance(n, ast.Name)}


def _flow(fn, seeds):
  """Transitive closure of 'depends on' over the straight-line assignments of fn: name -> set of seed labels."""
  dep = {k: set(v) for k, v in seeds.items()}
  changed = True
  assigns = []
  for st in ast.walk(fn):
    if isinstance(st, ast.Assign):
      assigns.append((st.targets, st.value))
    elif isinstance(st, ast.AnnAssign) and st.value is not None:
      assigns.append(([st.target], st.value))
    elif isinstance(st, ast.AugAssign):
      assigns.append(([st.target], ast.BinOp(left=st.target, op=st.op, right=st.value)))
    elif isinstance(st, (ast.For, ast.comprehension)):
      assigns.append(([st.target], st.iter))
    elif isinstance(st, ast.NamedExpr):
      assigns.append(([st.target], st.value))
  while changed:
    changed = False
    for targets, value in assigns:
      for t in targets:
        src = set()
        for nm in _names(value):
          src |= dep.get(nm, set())
        for nm in _names(t):
          if not src <= dep.get(nm, set()):
            dep[nm] = dep.get(nm, set()) | src
            changed = True
  return dep


def _component_seeds(fn, tangents_name, n):
  """Seeds for the flow analysis: names bound to single components of the tangents tuple. Returns (seeds, wholesale)."""
  seeds = {}
  wholesale = False
  for st in ast.walk(fn):
    if isinstance(st, ast.Assign) and isinstance(st.value, ast.Name) and st.value.id == tangents_name:
      for t in st.targets:
        if isinstance(t, (ast.Tuple, ast.List)):
          for i, e in enumerate(t.elts):
            if isinstance(e, ast.Name):
              seeds.setdefault(e.id, set()).add(i)
            elif isinstance(e, ast.Starred):
              wholesale = True
        elif isinstance(t, ast.Name):
          wholesale = True
  uses = [nd for nd in ast.walk(fn) if isinstance(nd, ast.Name) and nd.id == tangents_name and isinstance(nd.ctx, ast.Load)]
  sub = {}
  for nd in ast.walk(fn):
    if isinstance(nd, ast.Subscript) and isinstance(nd.value, ast.Name) and nd.value.id == tangents_name:
      try:
        i = ast.literal_eval(nd.slice)
      except Exception:
        i = None
      if isinstance(i, int):
        sub[id(nd.value)] = i % n if n else i
      else:
        wholesale = True
  unpack_ids = set()
  for st in ast.walk(fn):
    if isinstance(st, ast.Assign) and isinstance(st.value, ast.Name) and st.value.id == tangents_name and all(isinstance(t, (ast.Tuple, ast.List)) for t in st.targets):
      unpack_ids.add(id(st.value))
  for u in uses:
    if id(u) not in sub and id(u) not in unpack_ids:
      wholesale = True   # passed on as a whole (jax.jvp(f, primals, tangents), tree_map, …)
  return seeds, sub, wholesale


def _returned_tangent(fn):
  """AST nodes of the tangent output(s): second element of every returned 2-tuple (else the whole returned expression)."""
  out = []
  for st in ast.walk(fn):
    if isinstance(st, ast.Return) and st.value is not None:
      v = st.value
      if isinstance(v, ast.Tuple) and len(v.elts) == 2:
        out.append(v.elts[1])
      else:
        out.append(v)
  return out


def _check_jvp_rule(site, rule_fn, nparams):
  args = [a.arg for a in rule_fn.args.posonlyargs + rule_fn.args.args]
  nnd = len([i for i in site.nondiff if isinstance(i, int)])
  if len(args) < nnd + 2:
    site.problems.append(('?', f'rule {rule_fn.name} does not take (…nondiff, primals, tangents)'))
    return
  tname = args[nnd + 1]
  diff_idx = [i for i in range(nparams) if i not in site.nondiff]
  n = len(diff_idx)
  seeds, sub, wholesale = _component_seeds(rule_fn, tname, n)
  if wholesale:
    site.wholesale = True
    return
  # names bound to expressions that read tangents[i] are seeds of component i as well
  seeds = {k: set(v) for k, v in seeds.items()}
  for st in ast.walk(rule_fn):
    if isinstance(st, ast.Assign):
      comp = {sub[id(nd)] for nd in ast.walk(st.value) if isinstance(nd, ast.Name) and id(nd) in sub}
      if comp:
        for t in st.targets:
          for nm in _names(t):
            seeds.setdefault(nm, set()).update(comp)
  dep = _flow(rule_fn, seeds)
  outs = _returned_tangent(rule_fn)
  used = set()
  for o in outs:
    for nd in ast.walk(o):
      if isinstance(nd, ast.Name):
        used |= dep.get(nd.id, set())
        if id(nd) in sub:
          used.add(sub[id(nd)])
  for k, i in enumerate(diff_idx):
    if k not in used:
      pname = site.params[i] if i < len(site.params) else f'#{i}'
      site.problems.append((pname, f'the tangent of argument `{pname}` never reaches the tangent returned by {rule_fn.name}: the rule declares ∂/∂{pname} ≡ 0 in forward and reverse mode'))


def _check_vjp_rule(site, bwd_fn, nparams):
  diff_idx = [i for i in range(nparams) if i not in site.nondiff]
  for st in ast.walk(bwd_fn):
    if isinstance(st, ast.Return) and st.value is not None and isinstance(st.value, ast.Tuple):
      elts = st.value.elts
      if len(elts) != len(diff_idx):
        site.problems.append(('?', f'{bwd_fn.name} returns {len(elts)} cotangents for {len(diff_idx)} differentiable arguments'))
        continue
      for k, e in enumerate(elts):
        zero = (isinstance(e, ast.Constant) and e.value is None) or (isinstance(e, ast.Call) and (_dotted(e.func) or '').split('.')[-1] in ('zeros_like', 'zeros'))
        if zero:
          i = diff_idx[k]
          pname = site.params[i] if i < len(site.params) else f'#{i}'
          site.problems.append((pname, f'{bwd_fn.name} returns a zero / None cotangent for argument `{pname}`: the rule declares ∂/∂{pname} ≡ 0'))


def scan(tree):
  """All custom derivative definitions of a module with the problems of their rules."""
  funcs = {}
  for nd in ast.walk(tree):
    if isinstance(nd, (ast.FunctionDef, ast.AsyncFunctionDef)):
      funcs.setdefault(nd.name, nd)
  sites = {}
  for nd in ast.walk(tree):
    if isinstance(nd, (ast.FunctionDef, ast.AsyncFunctionDef)):
      for dec in nd.decorator_list:
        ck = _custom_kind(dec)
        if ck:
          params = [a.arg for a in nd.args.posonlyargs + nd.args.args]
          sites[nd.name] = Site(ck[0], nd.name, nd.lineno, params, ck[1])
    elif isinstance(nd, ast.Assign) and isinstance(nd.value, ast.Call):
      ck = _custom_kind(nd.value.func) or (_custom_kind(nd.value) if not nd.value.args else None)
      fn = _dotted(nd.value.func) or ''
      if fn.split('.')[-1] in ('custom_jvp', 'custom_vjp') and nd.value.args:
        inner = _dotted(nd.value.args[0])
        f0 = funcs.get((inner or '').split('.')[-1])
        nd_kw = ()
        for kw in nd.value.keywords:
          if kw.arg == 'nondiff_argnums':
            try:
              v = ast.literal_eval(kw.value)
              nd_kw = tuple(v) if isinstance(v, (tuple, list)) else (v,)
            except Exception:
              nd_kw = ('?',)
        for t in nd.targets:
          if isinstance(t, ast.Name):
            params = [a.arg for a in f0.args.posonlyargs + f0.args.args] if f0 is not None else []
            sites[t.id] = Site(fn.split('.')[-1], t.id, nd.lineno, params, nd_kw)
  # rule registrations
  registered = set()
  for nd in ast.walk(tree):
    # decorator form: @f.defjvp
    if isinstance(nd, (ast.FunctionDef, ast.AsyncFunctionDef)):
      for dec in nd.decorator_list:
        d = _dotted(dec)
        if d and d.split('.')[-1] == 'defjvp' and d.split('.')[0] in sites:
          s = sites[d.split('.')[0]]
          s.rule = nd.name
          registered.add(s.name)
          _check_jvp_rule(s, nd, len(s.params))
    if isinstance(nd, ast.Call):
      d = _dotted(nd.func) or ''
      parts = d.split('.')
      if len(parts) >= 2 and parts[0] in sites:
        s = sites[parts[0]]
        if parts[-1] == 'defjvp' and nd.args:
          r = funcs.get((_dotted(nd.args[0]) or '').split('.')[-1])
          registered.add(s.name)
          if r is not None:
            s.rule = r.name
            _check_jvp_rule(s, r, len(s.params))
          elif isinstance(nd.args[0], ast.Lambda):
            lam = nd.args[0]
            fake = ast.FunctionDef(name='<lambda>', args=lam.args, body=[ast.Return(value=lam.body)], decorator_list=[], lineno=nd.lineno)
            s.rule = '<lambda>'
            _check_jvp_rule(s, fake, len(s.params))
        elif parts[-1] == 'defjvps':
          registered.add(s.name)
          diff_idx = [i for i in range(len(s.params)) if i not in s.nondiff]
          for k, a in enumerate(nd.args):
            if isinstance(a, ast.Constant) and a.value is None and k < len(diff_idx):
              pname = s.params[diff_idx[k]]
              s.problems.append((pname, f'defjvps registers None for argument `{pname}`: the rule declares ∂/∂{pname} ≡ 0'))
        elif parts[-1] == 'defvjp' and len(nd.args) >= 2:
          registered.add(s.name)
          r = funcs.get((_dotted(nd.args[1]) or '').split('.')[-1])
          s.fwd = (_dotted(nd.args[0]) or '<lambda>').split('.')[-1]
          if r is not None:
            s.rule = r.name
            _check_vjp_rule(s, r, len(s.params))
  for s in sites.values():
    if s.name not in registered:
      s.problems.append(('?', f'{s.kind} function {s.name} has no registered derivative rule in this module'))
  return sorted(sites.values(), key=lambda s: s.lineno)
