"""In-place updates of shared objects (may-alias analysis on the syntax tree).

A local name *may alias* object state when one of its reaching definitions is
an attribute chain (`self.grid.basis.w`), another aliasing name, a view of one
(`x[1:]`, `x.T`, `np.asarray(x)`), or a conditional of those.  Reported are
augmented assignments, subscript stores and mutating calls whose target may
alias such state: numpy arrays held by `cached_property` values, dataclass
fields and module constants are shared between all later calls, so updating
them in place changes the results of every subsequent use.
"""
from __future__ import annotations

import ast

VIEW_CALLS = {'asarray', 'ravel', 'reshape', 'squeeze', 'transpose', 'view', 'swapaxes', 'moveaxis', 'atleast_1d', 'atleast_2d', 'broadcast_to', 'expand_dims', 'diagonal', 'real', 'imag'}
MUTATORS = {'fill', 'sort', 'put', 'itemset', 'resize', 'partition', 'setfield', 'fill_diagonal', 'place', 'putmask', 'copyto', 'shuffle'}


def _root(e):
  while isinstance(e, (ast.Attribute, ast.Subscript)):
    e = e.value
  return e


def _is_state_expr(e, aliases, module_consts, state_attrs=None, memoised=()):
  """Expression that evaluates to (a view of) an existing shared object."""
  if isinstance(e, ast.Name):
    return e.id in aliases or e.id in module_consts
  if isinstance(e, ast.Attribute):
    if e.attr in ('T', 'real', 'imag', 'flat'):
      return _is_state_expr(e.value, aliases, module_consts, state_attrs, memoised)
    r = _root(e)
    if not isinstance(r, ast.Name):
      return False
    if r.id in ('self', 'cls') or state_attrs is None:
      return True   # attribute chain rooted at the object itself: object state
    x = e
    while isinstance(x, (ast.Attribute, ast.Subscript)):
      if isinstance(x, ast.Attribute) and x.attr in state_attrs:
        return True   # a cached property / numpy-valued field reached through a parameter
      x = x.value
    return False
  if isinstance(e, ast.Subscript):
    return _is_state_expr(e.value, aliases, module_consts, state_attrs, memoised)   # basic indexing gives a view
  if isinstance(e, ast.IfExp):
    return _is_state_expr(e.body, aliases, module_consts, state_attrs, memoised) or _is_state_expr(e.orelse, aliases, module_consts, state_attrs, memoised)
  if isinstance(e, ast.Call):
    f = e.func
    name = f.attr if isinstance(f, ast.Attribute) else getattr(f, 'id', '')
    if name in memoised:
      return True   # a memoised (lru_cache / cache) function hands the same object to every caller
    if name in VIEW_CALLS:
      if isinstance(f, ast.Attribute) and isinstance(f.value, ast.Name) and f.value.id in ('np', 'jnp', 'numpy') and e.args:
        return _is_state_expr(e.args[0], aliases, module_consts, state_attrs, memoised)
      if isinstance(f, ast.Attribute):
        return _is_state_expr(f.value, aliases, module_consts, state_attrs, memoised)
  return False


def _own_nodes(fn):
  """Nodes of fn excluding nested function bodies."""
  stack = list(fn.body)
  while stack:
    n = stack.pop()
    yield n
    for c in ast.iter_child_nodes(n):
      if isinstance(c, (ast.FunctionDef, ast.AsyncFunctionDef, ast.Lambda, ast.ClassDef)):
        continue
      stack.append(c)


def inplace_updates(tree, module_consts=(), state_attrs=None, memoised=()):
  """[(function name, lineno, statement text, aliased expression text)] for one module tree."""
  out = []
  module_consts = set(module_consts)
  funcs = [n for n in ast.walk(tree) if isinstance(n, (ast.FunctionDef, ast.AsyncFunctionDef))]
  for fn in funcs:
    ctor = fn.name in ('__init__', '__post_init__', '__new__', '__setstate__')
    defs = {}
    for n in _own_nodes(fn):
      if isinstance(n, ast.Assign):
        for t in n.targets:
          if isinstance(t, ast.Name):
            defs.setdefault(t.id, []).append(n.value)
          elif isinstance(t, (ast.Tuple, ast.List)) and isinstance(n.value, (ast.Tuple, ast.List)) and len(t.elts) == len(n.value.elts):
            for el, v in zip(t.elts, n.value.elts):
              if isinstance(el, ast.Name):
                defs.setdefault(el.id, []).append(v)
          elif isinstance(t, (ast.Tuple, ast.List)):
            for el in t.elts:
              if isinstance(el, ast.Name):
                defs.setdefault(el.id, []).append(n.value)   # components of shared state are shared
      elif isinstance(n, ast.AnnAssign) and isinstance(n.target, ast.Name) and n.value is not None:
        defs.setdefault(n.target.id, []).append(n.value)
      elif isinstance(n, ast.NamedExpr) and isinstance(n.target, ast.Name):
        defs.setdefault(n.target.id, []).append(n.value)
    aliases = {}
    changed = True
    while changed:
      changed = False
      for name, vals in defs.items():
        if name in aliases:
          continue
        for v in vals:
          if _is_state_expr(v, aliases, module_consts, state_attrs, memoised):
            aliases[name] = ast.unparse(v)
            changed = True
            break
    def shared(target):
      """text of the shared object a store target may update, or None."""
      base = target
      while isinstance(base, ast.Subscript):
        base = base.value
      if isinstance(base, ast.Name):
        if base.id in aliases:
          return aliases[base.id]
        if base.id in module_consts and base.id not in defs:
          return f'module constant {base.id}'
        return None
      if isinstance(base, ast.Attribute):
        r = _root(base)
        if isinstance(r, ast.Name):
          if ctor and r.id == 'self':
            return None   # an object under construction fills its own fields
          if _is_state_expr(base, aliases, module_consts, state_attrs, memoised):
            return ast.unparse(base)
      return None
    for n in _own_nodes(fn):
      if isinstance(n, ast.AugAssign):
        # rebinding an attribute (`self.x /= s`) creates a new value for immutable numbers; a plain local alias
        # or a subscripted target updates the array in place
        if isinstance(n.target, ast.Attribute):
          continue
        s = shared(n.target)
        if s is not None:
          out.append((fn.name, n.lineno, ast.unparse(n)[:120], s))
      elif isinstance(n, ast.Assign):
        for t in n.targets:
          if isinstance(t, ast.Subscript):
            s = shared(t)
            if s is not None:
              out.append((fn.name, n.lineno, ast.unparse(n)[:120], s))
      elif isinstance(n, ast.Expr) and isinstance(n.value, ast.Call):
        f = n.value.func
        name = f.attr if isinstance(f, ast.Attribute) else getattr(f, 'id', '')
        if name in MUTATORS:
          tgt = None
          if isinstance(f, ast.Attribute) and isinstance(f.value, ast.Name) and f.value.id in ('np', 'numpy', 'random') and n.value.args:
            tgt = n.value.args[0]
          elif isinstance(f, ast.Attribute):
            tgt = f.value
          if tgt is not None:
            s = shared(tgt) if isinstance(tgt, (ast.Name, ast.Attribute, ast.Subscript)) else None
            if s is not None:
              out.append((fn.name, n.lineno, ast.unparse(n)[:120], s))
  return out
