"""Transpose calculus for hand-written reverse-mode rules of *linear* maps.

A term that is linear in x is normalised to a sum of operator words  c · (opₖ ∘ … ∘ op₁)(x)  over
  scale(s)            elementwise multiplication by an x-free factor s (scales commute with each other, with nothing else)
  cumsum / reverse_cumsum / flip along a fixed axis
The transpose of a word reverses it and transposes each letter (scaleᵀ = scale, cumsumᵀ = reverse_cumsum, flipᵀ = flip).
A custom_vjp backward rule B for a primal P (both linear) is correct iff words(B) = transpose(words(P)).

  words(term, x, alg) -> list[(coef, (letters…))] | None      (None: not recognisably linear in x)
  transpose(words)    -> words
  same(w1, w2)        -> bool
"""
from __future__ import annotations

import sympy as sp

from sa import sym, util

CUMS = {'cumsum': 'cumsum', 'reverse_cumsum': 'reverse_cumsum', 'flip': 'flip'}
TRANSPOSE = {'cumsum': 'reverse_cumsum', 'reverse_cumsum': 'cumsum', 'flip': 'flip'}


def _has(t, x):
  return sym.contains(t, lambda z: z == x)


def _axis_of(t):
  kw = dict(t.a[2])
  ax = kw.get('axis')
  if ax is None and len(t.a[1]) >= 2:
    ax = t.a[1][1]
  return sym.show(ax) if ax is not None else '?'


def _opname(t):
  if t.k != 'call':
    return None
  n = util.callee_name(t)
  if n in CUMS:
    return n
  if t.a[0].k == 'ext' and t.a[0].a[0].rsplit('.', 1)[-1] in CUMS:
    return t.a[0].a[0].rsplit('.', 1)[-1]
  return None


def words(t, x, A):
  """Linear normal form of t in x. A: alg.Algebra used to canonicalise the scale factors."""
  t = util.strip(t) if hasattr(util, 'strip') else t
  if t == x:
    return [(sp.Integer(1), ())]
  if not _has(t, x):
    return None
  if t.k == 'un' and t.a[0] == '-':
    w = words(t.a[1], x, A)
    return None if w is None else [(-c, ls) for c, ls in w]
  if t.k == 'bin' and t.a[0] in ('+', '-'):
    l, r = t.a[1], t.a[2]
    wl = words(l, x, A) if _has(l, x) else []
    wr = words(r, x, A) if _has(r, x) else []
    if wl is None or wr is None or (not _has(l, x) and not _has(r, x)):
      return None
    if (not _has(l, x)) or (not _has(r, x)):
      return None   # affine, not linear
    return wl + [((-c if t.a[0] == '-' else c), ls) for c, ls in wr]
  if t.k == 'bin' and t.a[0] == '*':
    l, r = t.a[1], t.a[2]
    if _has(l, x) and _has(r, x):
      return None
    inner, s = (l, r) if _has(l, x) else (r, l)
    w = words(inner, x, A)
    if w is None:
      return None
    return [_push_scale(c, ls, A.conv(s)) for c, ls in w]
  if t.k == 'bin' and t.a[0] == '/' and not _has(t.a[2], x):
    w = words(t.a[1], x, A)
    if w is None:
      return None
    return [_push_scale(c, ls, 1 / A.conv(t.a[2])) for c, ls in w]
  op = _opname(t)
  if op is not None and t.a[1] and _has(t.a[1][0], x) and not any(_has(z, x) for z in list(t.a[1][1:]) + [v for _, v in t.a[2]]):
    w = words(t.a[1][0], x, A)
    if w is None:
      return None
    return [(c, ls + ((op, _axis_of(t)),)) for c, ls in w]
  return None


def _push_scale(c, ls, s):
  s = sp.simplify(s)
  if s.is_number:
    return (c * s, ls)
  if ls and ls[-1][0] == 'scale':
    merged = sp.simplify(ls[-1][1] * s)
    if merged == 1:
      return (c, ls[:-1])
    return (c, ls[:-1] + (('scale', merged),))
  return (c, ls + (('scale', s),))


def transpose(ws):
  out = []
  for c, ls in ws:
    rev = []
    for l in reversed(ls):
      rev.append(l if l[0] == 'scale' else (TRANSPOSE[l[0]], l[1]))
    out.append((c, tuple(rev)))
  return out


def _canon(ws):
  acc = {}
  for c, ls in ws:
    key = tuple((l[0], sp.srepr(sp.simplify(l[1])) if l[0] == 'scale' else l[1]) for l in ls)
    acc[key] = sp.simplify(acc.get(key, 0) + c)
  return {k: v for k, v in acc.items() if v != 0}


def same(w1, w2):
  return _canon(w1) == _canon(w2)


def show(ws):
  parts = []
  for c, ls in ws:
    s = 'x'
    for l in ls:
      s = f'{l[1]}·{s}' if l[0] == 'scale' else f'{l[0]}[{l[1]}]({s})'
    parts.append(f'{c}·{s}' if c != 1 else s)
  return ' + '.join(parts)
