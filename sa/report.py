"""Run discipline shared by all checks: verdicts, known findings, evidence."""
from __future__ import annotations

import hashlib
import json
import os
import re
import sys
import time

from sa.model import AnalysisError

VERIF = os.path.dirname(os.path.dirname(os.path.abspath(__file__)))
KNOWN = os.path.join(VERIF, 'known_findings.json')


def norm_text(s: str) -> str:
  return re.sub(r'\s+', ' ', str(s)).strip()


class Check:
  """Collects rule instances for one property."""

  def __init__(self, pid, tier='quick', seed=0):
    self.pid = pid
    self.tier = tier
    self.seed = seed
    self.t0 = time.time()
    self.instances = []   # dict(rule, key, status, detail, loc)
    self.violations = []
    self.notes = []
    self.minimum = {}
    self.assumptions = []
    self.facts = {}
    self.explanation = ''
    self.trusted = []

  # -- recording -----------------------------------------------------------
  def _loc(self, loc):
    if loc is None:
      return None
    if isinstance(loc, tuple):
      return f'{loc[0]}:{loc[1]}'
    return str(loc)

  def ok(self, rule, key, detail='', loc=None):
    self.instances.append(dict(rule=rule, key=norm_text(key), status='holds', detail=norm_text(detail)[:400], loc=self._loc(loc)))

  def violation(self, rule, key, message, loc=None, expected=None, found=None, path=None):
    rec = dict(
        rule=rule, key=norm_text(key), status='VIOLATES', detail=norm_text(message)[:600], loc=self._loc(loc),
        expected=None if expected is None else norm_text(expected)[:400],
        found=None if found is None else norm_text(found)[:400],
        path=path,
    )
    self.instances.append(rec)
    self.violations.append(rec)

  def check(self, cond, rule, key, detail='', loc=None, expected=None, found=None):
    if cond:
      self.ok(rule, key, detail, loc)
    else:
      self.violation(rule, key, detail or 'rule broken', loc, expected, found)
    return bool(cond)

  def note(self, msg):
    self.notes.append(norm_text(msg))

  def require(self, cond, msg):
    """Analysis pre-condition (anchor present, idiom recognised)."""
    if not cond:
      raise AnalysisError(msg)

  def at_least(self, rule, n):
    self.minimum[rule] = n

  def assume(self, *texts):
    for t in texts:
      if t not in self.assumptions:
        self.assumptions.append(t)

  # -- finishing -----------------------------------------------------------
  def finish(self, explanation, trusted_base=(), analysed=None):
    counts = {}
    for i in self.instances:
      counts[i['rule']] = counts.get(i['rule'], 0) + 1
    for rule, n in self.minimum.items():
      if counts.get(rule, 0) < n and not self.violations:
        raise AnalysisError(
            f'rule {rule} matched {counts.get(rule, 0)} instance(s); at least {n} were confirmed by hand on the pinned tree '
            '(anchor moved or idiom no longer recognised)')
    known = load_known()
    listed = {(k['property'], k['rule'], norm_text(k['key'])): k for k in known.get('findings', [])}
    new = []
    for v in self.violations:
      kk = (self.pid, v['rule'], v['key'])
      if kk in listed:
        print(f"KNOWN-FINDING: property={self.pid} rule={v['rule']} {v['key']} — {listed[kk].get('what', v['detail'])}")
        v['status'] = 'KNOWN-FINDING'
      else:
        new.append(v)
    replay_paths = []
    no_ev = bool(os.environ.get('VERIF_NO_EVIDENCE'))
    os.makedirs(os.path.join(VERIF, 'replays'), exist_ok=True)
    for v in new:
      h = hashlib.sha1((v['rule'] + '|' + v['key']).encode()).hexdigest()[:10]
      rp = os.path.join(VERIF, 'replays', f'{self.pid}-{h}.json')
      if not no_ev:
        with open(rp, 'w') as f:
          json.dump(dict(property=self.pid, **v), f, indent=1, ensure_ascii=False)
      replay_paths.append(rp)
      print(f"{v['loc'] or '?'}: [{v['rule']}] {v['key']}: {v['detail']}")
      if v.get('expected') is not None or v.get('found') is not None:
        print(f"    expected: {v.get('expected')}\n    found:    {v.get('found')}")
      print(f'VIOLATION property={self.pid} replay={rp}')
    for n in self.notes:
      print(f'NOTE: {n}')
    rules = sorted(counts)
    distinct = len({(i['rule'], i['key']) for i in self.instances})
    samples = []
    seen_rules = set()
    for i in self.instances:
      if i['rule'] not in seen_rules or i['status'] != 'holds':
        seen_rules.add(i['rule'])
        samples.append({k: i[k] for k in ('rule', 'key', 'status', 'detail', 'loc')})
    ev = dict(
        property_id=self.pid,
        tier=self.tier,
        seed=int(self.seed),
        level='other',
        coverage=dict(
            explanation=explanation,
            evaluations=len(self.instances),
            distinct_nontrivial=distinct,
            rule='one evaluation = one rule instance (a call site, function, coefficient expression, guard or sibling pair located in the current working tree and decided by the named static rule); distinct = distinct (rule, construct) keys',
            obligations=len(self.instances),
            discharged=sum(1 for i in self.instances if i['status'] == 'holds'),
            known_findings=sum(1 for i in self.instances if i['status'] == 'KNOWN-FINDING'),
            per_rule=counts,
            min_instances=self.minimum,
            samples=samples[:60],
            notes=self.notes[:40],
            analysed=analysed or {},
            trusted_base=list(trusted_base),
            exhaustive=True,
        ),
        assumptions=self.assumptions,
        wall_s=round(time.time() - self.t0, 3),
        violations=len(new),
    )
    if not no_ev:
      os.makedirs(os.path.join(VERIF, 'evidence'), exist_ok=True)
      with open(os.path.join(VERIF, 'evidence', f'{self.pid}.json'), 'w') as f:
        json.dump(ev, f, indent=1, ensure_ascii=False, default=str)
    held = sum(1 for i in self.instances if i['status'] == 'holds')
    print(f'{self.pid} [{self.tier}]: {len(self.instances)} rule instances over {len(rules)} rules, '
          f'{held} hold, {len(self.violations) - len(new)} known finding(s), {len(new)} violation(s); '
          f'{ev["wall_s"]} s')
    return 1 if new else 0


def unlisted_violations(chk):
  """Violations of `chk` that the known-findings file does not list."""
  known = load_known()
  listed = {(k['property'], k['rule'], norm_text(k['key'])) for k in known.get('findings', [])}
  return [v for v in chk.violations if (chk.pid, v['rule'], v['key']) not in listed]


def load_known():
  if not os.path.exists(KNOWN):
    return {}
  with open(KNOWN) as f:
    return json.load(f)
